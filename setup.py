"""setup_cmd: nothing has to be built or installed (stdlib + the repository's interpreter only);
runs the oracle self-test so that a broken reference model is noticed before any check is believed."""
import os, subprocess, sys
HERE = os.path.dirname(os.path.abspath(__file__))
sys.exit(subprocess.call([sys.executable, os.path.join(HERE, "check"), "selftest"]))

"""setup_cmd: install icontract from the offline wheelhouse into ./.deps and run the oracle self-test."""
import os, subprocess, sys
HERE = os.path.dirname(os.path.abspath(__file__))
sys.path.insert(0, HERE)
from vlib import env
env.ensure_deps()
sys.exit(subprocess.call([sys.executable, os.path.join(HERE, "check"), "selftest"]))

#!/venv/bin/python
"""markdown rows for the seeds of one round (suffix), generated from seeded/*/meta.json"""
import json, os, re, sys, glob
HERE = os.path.dirname(os.path.dirname(os.path.abspath(__file__)))
suffix = sys.argv[1]  # e.g. d
rows = []
for d in sorted(glob.glob(os.path.join(HERE, "seeded", f"C??{suffix}*"))):
    name = os.path.basename(d)
    m = json.load(open(os.path.join(d, "meta.json")))
    notes = " ".join(m.get("agent_notes", "").split())
    notes = re.sub(r"^(Seed\s+\S+\s*[-:]\s*)", "", notes)
    short = notes[:230].replace("|", "/")
    det = m.get("detected_by", {})
    mech = ""
    for r in m.get("checks_run", []):
        if r.get("exit") == 1 and r.get("mechanisms"):
            mech = f"{r['check']} {r['tier']} `{r['mechanisms'][0]}`"
            break
    first = "caught"
    earlier = m.get("earlier_evaluations", [])
    if earlier and not (earlier[0].get("detected_by") or {}):
        first = "**missed**, caught after strengthening" if det else "**missed**"
    elif not det:
        first = "**missed**"
    if m.get("first_evaluation"):
        first += " - " + m["first_evaluation"][:160]
    rows.append(f"| {name} | {short} | {mech or '-'} | {first} |")
print("| seed | change (agent's words, truncated) | detected by | first evaluation |\n|---|---|---|---|")
print("\n".join(rows))

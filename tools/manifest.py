#!/venv/bin/python
"""Regenerates MANIFEST.json from the table below (keeps it schema-valid at all times)."""
import json, os, sys
HERE = os.path.dirname(os.path.dirname(os.path.abspath(__file__)))
sys.path.insert(0, HERE)
from tools.manifest_table import CHECKS, NOT_APPLICABLE_REASON

props = [json.loads(l) for l in open(os.path.join(HERE, "properties.jsonl"))]
PY = "/venv/bin/python"
checks = []
for p in props:
    pid = p["id"]
    if pid not in CHECKS:
        continue
    c = CHECKS[pid]
    checks.append({
        "property_id": pid,
        "quick_cmd": f"{PY} check {pid} --tier quick",
        "thorough_cmd": f"{PY} check {pid} --tier thorough",
        "evidence_file": f"evidence/{pid}.json",
        "replay_cmd_template": f"{PY} check {pid} --replay {{path}}",
        "engine": c.get("engine", "monitor+refpddl"),
        "level_claimed": {"category": "exploration", "text": c["text"], "design_ref": c.get("design_ref", f"DESIGN.md section 3 ({pid})")},
        "level_note": c["note"],
        "technique": c["technique"],
    })
m = {
    "version": 1,
    "setup_cmd": f"{PY} setup.py",
    "hooks": {
        "guard": "PDDL_PLUS_PARSER_VERIF",
        "enable": "no source hooks: monitors wrap the library's public classes from outside (plain pre/post wrappers installed by /verif/vlib/monitor.py); the variable is only read by /verif's pytest plugin when the repository's tests are used as a workload",
        "baseline_off_cmd": "cd /repo && /venv/bin/python -m pytest -ra -q -p no:cacheprovider --timeout=900 --continue-on-collection-errors",
        "source_commits": [],
        "add_only": True,
    },
    "engines": [
        {"name": "refpddl", "path": "vlib/model.py", "serves_properties": [c["property_id"] for c in checks], "kind_free_text": "independent executable reference model of the PDDL fragment (reader, type closure, formula evaluation, successor, substitution) used as the oracle of the runtime monitors; exact rational arithmetic"},
        {"name": "sx", "path": "vlib/sx.py", "serves_properties": [c["property_id"] for c in checks], "kind_free_text": "reference S-expression reader and layout-randomising renderer"},
        {"name": "gen", "path": "vlib/gen.py", "serves_properties": [c["property_id"] for c in checks], "kind_free_text": "seeded grammar-based generators with feature accounting; covering-state selection"},
        {"name": "runner", "path": "vlib/runner.py", "serves_properties": [c["property_id"] for c in checks], "kind_free_text": "shard fan-out (subprocess per shard with watchdog), three-valued verdicts, known-findings classification, evidence and replay files"},
    ],
    "checks": checks,
    "not_applicable": [{"property_id": p["id"], "reason": NOT_APPLICABLE_REASON.get(p["id"], "check not built yet (work in progress; planned in DESIGN.md section 3)")} for p in props if p["id"] not in CHECKS],
    "notes": "All checks are runtime monitors on the real library driven by generated, shipped and hostile workloads, with an independent reference model as oracle; exit 0 held / 1 violated / 2 inconclusive. known_findings.json lists recorded defects and fixed entries.",
}
json.dump(m, open(os.path.join(HERE, "MANIFEST.json"), "w"), indent=1)
print("claimed:", [c["property_id"] for c in checks])

#!/venv/bin/python
"""Evaluate a seeded break delivered by an independent sub-agent in /tmp/seed-<ID>/ and, if it is
confirmed, store it under /verif/seeded/<name>/ (patch.diff, demo, meta.json).

Confirmation = in a fresh scratch worktree of /repo HEAD: the patch applies, the pinned suite still
reports 63 passed, the demonstration fails with the patch and passes without it.  Then the
property's checks (quick, then thorough if quick misses) are run against the patched scratch tree
(VERIF_REPO) with evidence redirected, and the verdict is recorded.

usage: tools/seed_eval.py <ID> [name] [--also C03,C07]"""
import json
import os
import shutil
import subprocess
import sys
import tempfile

HERE = os.path.dirname(os.path.dirname(os.path.abspath(__file__)))


def run(cmd, **kw):
    return subprocess.run(cmd, shell=True, stdout=subprocess.PIPE, stderr=subprocess.STDOUT, text=True, **kw)


def main():
    pid = sys.argv[1]
    name = sys.argv[2] if len(sys.argv) > 2 and not sys.argv[2].startswith("--") else pid
    also = []
    idx = ""
    quick_only = "--quick-only" in sys.argv
    for a in sys.argv:
        if a.startswith("--also"):
            also = sys.argv[sys.argv.index(a) + 1].split(",")
        if a == "--idx":
            idx = sys.argv[sys.argv.index(a) + 1]
    src = f"/tmp/seed-{name}" if os.path.isdir(f"/tmp/seed-{name}") else f"/tmp/seed-{pid}"
    sfx = f"_{idx}" if idx else ""
    srcname = name
    name = name + idx
    stored = os.path.join(HERE, "seeded", name)
    prev = {}
    if not os.path.exists(os.path.join(src, f"seed_patch{sfx}.diff")) and os.path.isdir(stored):
        # re-evaluation of a stored seed (the agent's worktree is gone): the demo still names it
        prev = json.load(open(os.path.join(stored, "meta.json")))
        src = prev.get("demo_src", f"/tmp/seed-{srcname}")
        patch = os.path.join(stored, "patch.diff")
        demo = os.path.join(stored, "demo.py")
        meta_txt = prev.get("agent_notes", "")
    else:
        patch = os.path.join(src, f"seed_patch{sfx}.diff")
        demo = os.path.join(src, f"seed_demo{sfx}.py")
        meta_txt = open(os.path.join(src, f"seed_meta{sfx}.txt")).read() if os.path.exists(os.path.join(src, f"seed_meta{sfx}.txt")) else ""
    d = tempfile.mkdtemp(prefix="seedeval-")
    rec = {"property": pid, "name": name, "ran": [], "prev": prev}
    try:
        wt = os.path.join(d, "r")
        run(f"git -C /repo worktree add -q --detach {wt} HEAD")
        # demo without the patch
        demo_txt = open(demo).read().replace(src, wt)
        open(os.path.join(d, "demo.py"), "w").write(demo_txt)
        r0 = run(f"/venv/bin/python {d}/demo.py", timeout=600)
        rec["demo_without_patch_exit"] = r0.returncode
        a = run(f"git -C {wt} apply {patch}")
        rec["patch_applies"] = a.returncode == 0
        if a.returncode != 0:
            print("patch does not apply:", a.stdout[-300:])
            return finish(rec, None)
        t = run(f"cd {wt} && PYTHONPATH={wt} /venv/bin/python -m pytest -q -p no:cacheprovider --timeout=900 --continue-on-collection-errors 2>&1 | tail -1")
        rec["pinned_suite"] = t.stdout.strip()[-80:]
        rec["pinned_ok"] = "63 passed" in t.stdout
        r1 = run(f"/venv/bin/python {d}/demo.py", timeout=600)
        rec["demo_with_patch_exit"] = r1.returncode
        rec["demo_output_with_patch"] = r1.stdout[-600:]
        rec["confirmed"] = bool(rec["pinned_ok"] and r0.returncode == 0 and r1.returncode != 0)
        print(json.dumps({k: v for k, v in rec.items() if k not in ("demo_output_with_patch", "prev")}, indent=1))
        if not rec["confirmed"]:
            return finish(rec, None)
        env = dict(os.environ, VERIF_REPO=wt, VERIF_EVIDENCE_DIR=os.path.join(d, "evidence"))
        detected = {}
        for chk in [pid] + also:
            for tier in (("quick",) if quick_only else ("quick", "thorough")):
                r = run(f"cd {HERE} && /venv/bin/python check {chk} --tier {tier}", env=env)
                mechs = sorted({ln.split("mechanism:")[1].strip() for ln in r.stdout.splitlines() if "mechanism:" in ln})
                rec["ran"].append({"check": chk, "tier": tier, "exit": r.returncode, "mechanisms": mechs[:8],
                                   "summary": [ln for ln in r.stdout.splitlines() if "seed=" in ln][-1:]})
                print(chk, tier, "exit", r.returncode, mechs[:4])
                if r.returncode == 1:
                    detected[chk] = tier
                    break
                if r.returncode != 0:
                    print(r.stdout[-1500:])
        rec["detected_by"] = detected
        return finish(rec, (patch, demo, meta_txt, src))
    finally:
        run(f"git -C /repo worktree remove --force {d}/r")
        shutil.rmtree(d, ignore_errors=True)


def finish(rec, files):
    if files and rec.get("confirmed"):
        patch, demo, meta_txt, src = files
        out = os.path.join(HERE, "seeded", rec["name"])
        os.makedirs(out, exist_ok=True)
        if os.path.abspath(patch) != os.path.abspath(os.path.join(out, "patch.diff")):
            shutil.copy(patch, os.path.join(out, "patch.diff"))
            open(os.path.join(out, "demo.py"), "w").write(open(demo).read())
        meta = {"property": rec["property"], "breaks": rec["property"], "origin": "independent sub-agent given only the property text and a scratch worktree",
                "agent_notes": meta_txt, "needs_to_manifest": "see agent_notes (WHAT IS NEEDED TO MANIFEST)",
                "confirmed": {"patch_applies_to_repo_head": rec["patch_applies"], "pinned_suite_with_patch": rec["pinned_suite"],
                              "demo_exit_without_patch": rec["demo_without_patch_exit"], "demo_exit_with_patch": rec["demo_with_patch_exit"]},
                "checks_run": rec["ran"], "detected_by": rec.get("detected_by", {}), "demo_src": src,
                "how_to_rerun": f"git -C /repo worktree add --detach /tmp/x HEAD && git -C /tmp/x apply {os.path.join('seeded', rec['name'], 'patch.diff')} ; VERIF_REPO=/tmp/x VERIF_EVIDENCE_DIR=/tmp/x-ev /venv/bin/python check {rec['property']} --tier quick ; git -C /repo worktree remove --force /tmp/x"}
        prev = rec.get("prev") or {}
        if prev:
            # keep the history of earlier evaluations of this seed
            hist = prev.get("earlier_evaluations", [])
            hist.append({"checks_run": prev.get("checks_run"), "detected_by": prev.get("detected_by")})
            meta["earlier_evaluations"] = hist
            for k in ("first_evaluation", "strengthening"):
                if k in prev:
                    meta[k] = prev[k]
        json.dump(meta, open(os.path.join(out, "meta.json"), "w"), indent=1)
        print("stored in", out, "detected_by:", rec.get("detected_by"))
    else:
        print("NOT confirmed / not stored")
    return 0


if __name__ == "__main__":
    sys.exit(main())

import json
def prop_text(pid):
    for l in open('/verif/properties.jsonl'):
        p = json.loads(l)
        if p['id'] == pid:
            return f"{p['id']} - {p['title']}\n\nSTATEMENT: {p['statement']}\n\nQUANTIFIER ({', '.join(p['quantifier']['over'])}): {p['quantifier']['text']}\n"
import sys, json
pid=sys.argv[1]
prop=prop_text(pid)
wt=f'/tmp/seed-{pid}b'
prev=json.load(open(f'/verif/seeded/{pid}/meta.json'))['agent_notes']
prev_short=prev[:900]
import subprocess
txt=subprocess.check_output(['/venv/bin/python','/verif/tools/seed_prompt.py',pid]).decode().replace(f'/tmp/seed-{pid}',wt)
extra=f"""

ADDITIONAL REQUIREMENT: another engineer already produced a change for this property; his notes start like this:
---
{prev_short}
---
Your change must be of a DIFFERENT kind: another function / another mechanism / another input class than that one (do not touch the same lines, and do not make a variation of the same idea). Prefer a defect that needs a multi-step history, an unusual-but-legal input shape, or the cooperation of two places in the code.
"""
print(txt+extra)

NOT_APPLICABLE_REASON = {}
CHECKS = {
 "C11": {
  "technique": "runtime monitor on PDDLTokenizer.parse vs reference reader; bounded-exhaustive + random token trees, hostile layouts, single-parenthesis edits",
  "text": "Every parse() call of the workload is compared (value or raise) with an independent strict reader on the same characters: all token trees up to 5 (quick, sampled at the bound) / 6 (thorough) nodes over a 3-token alphabet under hostile layouts in file and string mode, every single parenthesis deletion/insertion of their plain rendering, random trees to 300 tokens with trailing material, and every shipped PDDL/trajectory file. Held means no disagreement on the executions observed, not a proof for all texts.",
  "note": "Trusts vlib.sx.read as the specification of the parenthesis structure (self-tested by render/read round trips). Lone-CR line ends and bare-atom inputs are not judged.",
 },
}

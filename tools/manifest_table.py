NOT_APPLICABLE_REASON = {}
CHECKS = {
 "C11": {
  "technique": "runtime monitor on PDDLTokenizer.parse vs reference reader; bounded-exhaustive + random token trees, hostile layouts, single-parenthesis edits",
  "text": "Every parse() call of the workload is compared (value or raise) with an independent strict reader on the same characters: all token trees up to 5 (quick, sampled at the bound) / 6 (thorough) nodes over a 3-token alphabet under hostile layouts in file and string mode, every single parenthesis deletion/insertion of their plain rendering, random trees to 300 tokens with trailing material, and every shipped PDDL/trajectory file. Held means no disagreement on the executions observed, not a proof for all texts.",
  "note": "Trusts vlib.sx.read as the specification of the parenthesis structure (self-tested by render/read round trips). Lone-CR line ends and bare-atom inputs are not judged.",
 },
}
CHECKS["C06"] = {
  "technique": "runtime monitor of is_sub_type / hierarchy graph / problem type checks / quantifier ranges vs edge-list closure; all forests <= 4 types x permuted and regrouped declarations",
  "text": "For every labelled type forest with <= 4 types (sampled in quick, all in thorough) and random deeper ones, under permutations and regroupings of the declaration lines, the parsed domain's is_sub_type answers for all pairs, the hierarchy graph's reachability, accept/reject of problem facts, fluents and constant arguments for every (object type, required type) pair and the objects ranged over by forall effects and forall preconditions are compared with the reflexive-transitive closure of the edge list. Exploration: held on the renderings observed.",
  "note": "Trusts the generator's edge list and its closure. Constants are kept out of quantified types. Sizes: exhaustive to 4 types, random to 8 types / depth 4.",
}
CHECKS["C02"] = {
  "technique": "runtime monitor on Operator.is_applicable vs reference formula evaluator on covering states; bounded-exhaustive formula sweep + random formulas",
  "text": "Every is_applicable call of the workload is compared with the reference model's truth value of the same precondition text in an independently known state: random formulas of the supported fragment (and/or nesting, negative literals, (in)equalities, numeric comparisons, forall with and/or bodies, empty bodies) for sampled type-correct calls (repeated objects, constants) on covering states - all 2^k assignments of the atoms the instance can depend on when k <= 7/8 - plus, in the thorough tier, a bounded-exhaustive sweep of (and c1 [c2]) formulas over a 10-leaf alphabet in a 3-object universe with a subtype object and a constant. Exceptions are refusals (tolerated, counted). Exploration, not proof.",
  "note": "Trusts refpddl.holds (validated against shipped planner plans and a second evaluation strategy). Numeric cases stay on a dyadic grid away from the comparison tolerance; constants never inhabit quantified types; universes of <= 4 objects.",
}
CHECKS["C03"] = {
  "technique": "runtime monitor on Operator.apply vs reference successor function, under injected iteration orders of the library's hash sets (PermSet) and a PYTHONHASHSEED sweep",
  "text": "Every model-applicable (action, call, state) of the workload is applied by the real Operator under the natural order and under k injected permutations of all set-valued collections of the schema and grounded operator (4 quick / 24 thorough, plus 8 hash seeds in thorough); the serialised successor is re-read independently and must equal the reference successor (delete-then-add, conditions and right-hand sides evaluated in the pre-state, frame unchanged). Workload: add/delete, assign/increase/decrease whose right-hand sides read fluents written by other effects, when with literal/numeric/equality conditions, forall-when over types with subtypes, on covering states. Inconsistent effect sets are outside the quantifier and skipped. Exploration.",
  "note": "Trusts refpddl.successor (validated on shipped planner plans and a STRIPS differential) and that PermSet is a behaviour-preserving set subtype. Sets created and consumed inside one call are only varied by the hash-seed sweep. Fluents of arity <= 2.",
}
CHECKS["C07"] = {
  "technique": "purity contracts (digest of all live objects before/after every API call) + journal replay + multi-threaded runs with sys.monitoring yield injection, all on the real classes",
  "text": "Pre/post contracts installed on the library's public entry points compare a read-only structural digest of every live object (domains and their schemas, problems, every state handed in or returned so far, module globals, a fresh Domain) before and after each call of random API histories (30-200 calls: ground, is_applicable, apply with every flag combination, re-applying one operator object to earlier and later states, serialize/copy/print, domain/problem/trajectory export, parsing unrelated typed/untyped domains, combining agent files); every call is journalled and replayed later in the same history and must return the same canonical result; thread runs (2-8 threads, yield injection at statement boundaries inside the models package) must reproduce, call by call, the sequential results; thorough also runs the repository's own four test directories under the purity contracts. Exploration.",
  "note": "Trusts vlib.digest (read-only walk) to capture the value of an object. Thread sequences avoid sympy-backed calls and inconsistent effect sets; sampling under the GIL, no claim for free-threaded builds.",
}

#!/venv/bin/python
"""appends a 'fixed:' entry for the repository's HEAD commit to known_findings.json: tools/record_fix.py <property> <what failed>"""
import json, subprocess, sys
k = json.load(open('/verif/known_findings.json'))
h = subprocess.check_output(['git', '-C', '/repo', 'log', '--format=%h', '-1']).decode().strip()
k['fixed'].append(f"fixed: property={sys.argv[1]} {h} {sys.argv[2]}")
json.dump(k, open('/verif/known_findings.json', 'w'), indent=1)
print(k['fixed'][-1])

import json
def prop_text(pid):
    for l in open('/verif/properties.jsonl'):
        p = json.loads(l)
        if p['id'] == pid:
            return f"{p['id']} - {p['title']}\n\nSTATEMENT: {p['statement']}\n\nQUANTIFIER ({', '.join(p['quantifier']['over'])}): {p['quantifier']['text']}\n"
import sys
pid=sys.argv[1]
prop=prop_text(pid)
wt=f'/tmp/seed-{pid}'
print(f"""You are helping to evaluate a verification framework for the Python library `pddl_plus_parser` (a parser / object model / simulator for PDDL planning domains). You get a private scratch git worktree of the library at {wt} (python package in {wt}/pddl_plus_parser, tests in {wt}/tests). Work ONLY inside {wt} (never touch /repo or /verif, and do not read anything under /verif).

Here is a semantic property that the library is supposed to satisfy:

{prop}

YOUR TASK: make ONE small, realistic source change (the kind of slip a maintainer could make in a refactor, an optimisation or a bug fix: 1-15 changed lines, in the library's package only, not in tests) that BREAKS this property, while
 (a) the library still imports and the repository's existing test suite still passes exactly as before. The pinned suite is run from the worktree root with:
       cd {wt} && PYTHONPATH={wt} /venv/bin/python -m pytest -q -p no:cacheprovider --timeout=900 --continue-on-collection-errors 2>&1 | tail -3
     Before and after your change it must report `63 passed` (many other tests fail/error there for fixture-path reasons: that is expected and must be unchanged). In addition each test directory can be run with that directory as cwd, e.g. `cd {wt}/tests/models_tests && PYTHONPATH={wt} /venv/bin/python -m pytest -q -p no:cacheprovider .`; a good change keeps those results unchanged as well (run them before and after and compare the pass/fail counts; lisp_parsers_tests has 4 and models_tests has 2 pre-existing failures).
 (b) the breakage is SUBTLE: it must need something specific to manifest - an unusual input shape, a particular combination of features, a multi-step sequence of operations, a particular iteration order, two cooperating sites that each look fine alone - and must NOT be exposed at once by ordinary use (e.g. not "every call returns the wrong answer").

DELIVERABLES (all inside {wt}):
 1. {wt}/seed_patch.diff  - produced with `cd {wt} && git diff > seed_patch.diff` (only library files; do not include seed_* files in the diff).
 2. {wt}/seed_demo.py     - a small self-contained demonstration program that uses only the public API of the library (import with `sys.path.insert(0, '{wt}')` at the top), exits with status 1 and prints what went wrong when run against the changed code, and exits 0 against the unchanged code (verify both with `git diff > /tmp/x.diff; git apply -R /tmp/x.diff; ...; git apply /tmp/x.diff` - do NOT use `git stash`: the worktrees of several engineers share one stash). It should write any files it needs into a tempfile directory.
 3. {wt}/seed_meta.txt    - 5-10 lines: which file/function you changed, why it breaks the property, what exactly is needed for the defect to manifest, and the commands you ran with their results (pinned suite before/after, demo before/after).

Leave the worktree with your change APPLIED (working tree dirty, nothing committed). Use /venv/bin/python (Python 3.12; the library's dependencies are installed there). There is no network. Be concrete and verify everything by actually running it; report in your final answer the content of seed_meta.txt.""")

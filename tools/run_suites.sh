#!/bin/bash
# pinned suite (from /repo root) and wider suite (each tests/<dir> with that dir as cwd); prints pass/fail counts
REPO=${1:-/repo}
cd $REPO && echo "pinned: $(PYTHONPATH=$REPO /venv/bin/python -m pytest -q -p no:cacheprovider --timeout=900 --continue-on-collection-errors 2>&1 | tail -1)"
for d in exporters_tests lisp_parsers_tests models_tests multi_agent_tests; do
  (cd $REPO/tests/$d && echo "wider $d: $(PYTHONPATH=$REPO /venv/bin/python -m pytest -q -p no:cacheprovider --timeout=900 -q . 2>&1 | tail -1)")
done

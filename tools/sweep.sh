#!/bin/bash
# usage: tools/sweep.sh <tier> <seed>... ; prints one line per check and every VIOLATION / INCONCLUSIVE line
tier=$1; shift
for seed in "$@"; do
  for c in C01 C02 C03 C04 C05 C06 C07 C08 C09 C10 C11 C12 C13 C14 C15 C16 C17 C18 C19 C20; do
    VERIF_SEED=$seed /venv/bin/python check $c --tier $tier 2>&1 | grep -E "VIOLATION|INCONCLUSIVE|mechanism|seed=" 
  done
done

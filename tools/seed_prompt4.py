"""round-4 prompt: three independent minimal changes per property (typo-sized), earlier seeds summarised in one line each"""
import json, subprocess, sys, os
pid = sys.argv[1]
wt = f'/tmp/seed-{pid}d'
notes = []
for name in (pid, pid + 'b', pid + 'c'):
    f = f'/verif/seeded/{name}/meta.json'
    if os.path.exists(f):
        notes.append(json.load(open(f))['agent_notes'][:350].replace("\n", " "))
txt = subprocess.check_output(['/venv/bin/python', '/verif/tools/seed_prompt.py', pid]).decode().replace(f'/tmp/seed-{pid}', wt)
txt = txt.replace("YOUR TASK: make ONE small, realistic source change", "YOUR TASK: make THREE INDEPENDENT ALTERNATIVE changes, each to be applied on its own to the clean tree. Each is ONE small, realistic source change")
extra = f"""

DIFFERENCES FROM THE DELIVERABLES ABOVE (they override it): you deliver THREE alternatives, numbered 1, 2, 3:
   {wt}/seed_patch_1.diff, {wt}/seed_demo_1.py, {wt}/seed_meta_1.txt  (and likewise _2 and _3).
 Each patch is relative to the CLEAN tree (create it with `git diff > seed_patch_N.diff`, then `git checkout -- pddl_plus_parser` before starting the next one). Each demo exits 1 with its own patch applied and 0 on the clean tree. Each alternative must individually satisfy (a) and (b). At the end leave the worktree CLEAN (no change applied) with the nine seed_* files present.
 The three alternatives must differ from each other: different functions, and if possible different clauses of the statement / different parts of the quantifier. Keep each one SMALL - the size of a real slip: an operator, a constant, an index, a condition, an argument, a default value, a forgotten copy, a swapped pair, an early return.
 Other engineers already produced the following changes for this property; do not repeat them or make variations of them:
""" + "".join(f"   - {n}\n" for n in notes)
print(txt + extra)

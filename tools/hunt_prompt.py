"""prompt for an independent defect hunt on the UNCHANGED library: only the property text and a scratch worktree"""
import json, sys
pid = sys.argv[1]
wt = f'/tmp/hunt-{pid}'
for l in open('/verif/properties.jsonl'):
    p = json.loads(l)
    if p['id'] == pid:
        prop = f"{p['id']} - {p['title']}\n\nSTATEMENT: {p['statement']}\n\nQUANTIFIER ({', '.join(p['quantifier']['over'])}): {p['quantifier']['text']}\n"
print(f"""You are helping to evaluate the Python library `pddl_plus_parser` (a parser / object model / simulator for PDDL planning domains). You get a private scratch git worktree of the library at {wt} (python package in {wt}/pddl_plus_parser, tests in {wt}/tests). Work ONLY inside {wt} (never touch /repo or /verif, and do not read anything under /verif). Do NOT modify the library's source: this is a hunt for defects in the code AS IT IS.

Here is a semantic property that the library is supposed to satisfy:

{prop}

YOUR TASK: try hard to find inputs, call sequences, configurations or iteration orders - inside the property's quantifier - on which the UNCHANGED library VIOLATES the property. Read the relevant code, think about edge cases (empty things, zero-arity symbols, repeated arguments, constants, deep or unusual nesting, unusual but legal syntax, type hierarchies, numeric corner cases such as zero / negative / tiny / huge values, several objects sharing state, the same object used twice, a second call after a first one, alternative entry points of the public API that should behave the same), write small experiments and run them. Most obvious cases have already been fixed; look for the non-obvious ones. An exception raised for a legal input inside the quantifier also counts when the statement promises a result. Do not report: behaviour the statement explicitly allows (e.g. "rejected with an error"), inputs outside the quantifier, or pure style issues.

DELIVERABLES (inside {wt}):
 - for EVERY distinct violation you can demonstrate: {wt}/hunt_demo_N.py (N = 1, 2, ...), a small self-contained program using only the public API (start with `import sys; sys.path.insert(0, '{wt}')`), which prints what is wrong (expected vs observed) and exits with status 1 on the unchanged code. Writing needed files into a tempfile directory. One defect per demo; at most 5 demos, the most serious first.
 - {wt}/hunt_report.txt: for each demo 3-6 lines (the input, expected by the statement, observed, where in the code it comes from), then a list of the things you tried that behaved correctly.
Use /venv/bin/python (Python 3.12; the library's dependencies are installed). There is no network. Never use `git stash`. Be concrete and verify everything by actually running it; report the content of hunt_report.txt in your final answer. If you find nothing after a serious effort, say so - do not invent a violation.""")

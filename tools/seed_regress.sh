#!/bin/bash
# re-evaluates every stored seed with the quick tier of its property (plus the checks that caught it before) and prints one line per seed
cd "$(dirname "$0")/.."
for d in seeded/*/; do
  name=$(basename $d)
  prop=${name:0:3}
  also=$(/venv/bin/python -c "
import json;m=json.load(open('$d/meta.json'));print(','.join(k for k in m.get('detected_by',{}) if k!='$prop'))")
  if [ -n "$also" ]; then extra="--also $also"; else extra=""; fi
  out=$(tools/seed_eval.py $prop $name $extra --quick-only 2>&1 | grep -E "detected_by|NOT confirmed" | tail -1)
  echo "$name: $out"
done

#!/venv/bin/python
"""Mutation self-test of the checks (DESIGN section 6.2).

Each mutant is a small textual patch applied to a scratch copy of /repo (removed afterwards).  The
pinned suite must still pass on the copy (otherwise the mutant is not a 'passes the tests' change
and is reported as dropped), then the property's quick check runs with VERIF_REPO pointing at the
copy and must exit 1 with a VIOLATION line.  Results -> /verif/selftest_results.json.

usage: tools/mutants.py [ids...]"""
import json
import os
import shutil
import subprocess
import sys
import tempfile

HERE = os.path.dirname(os.path.dirname(os.path.abspath(__file__)))
REPO = "/repo"
P = "pddl_plus_parser/"

M = [
    # id, property, file, old, new
    ("c01-not-positive", "C01", P + "lisp_parsers/preconditions_parser.py", "is_positive=False,\n                    )\n                )\n                continue\n\n            if precondition_node[0] == EQUALITY_OPERATOR", "is_positive=True,\n                    )\n                )\n                continue\n\n            if precondition_node[0] == EQUALITY_OPERATOR"),
    ("c01-grouped-params-next-type", "C01", P + "lisp_parsers/parsing_utils.py", "            for grouped_param in grouped_params:\n                signature[grouped_param] = domain_types[parameter_type]", "            for grouped_param in grouped_params[:-1]:\n                signature[grouped_param] = ObjectType\n            for grouped_param in grouped_params[-1:]:\n                signature[grouped_param] = domain_types[parameter_type]"),
    ("c01-decrease-as-increase", "C01", P + "models/numerical_expression.py", '    "decrease": decrease,', '    "decrease": increase,'),
    ("c02-or-as-and", "C02", P + "models/grounded_precondition.py", '"or": lambda x, y: x or y}', '"or": lambda x, y: x and y}'),
    ("c02-leq-strict", "C02", P + "models/numerical_expression.py", '    "<=": lambda x, y: math.isclose(x, y, rel_tol=0.0, abs_tol=EPSILON) or (x < y),', '    "<=": lambda x, y: (x < y),'),
    ("c02-inequality-inverted", "C02", P + "models/grounded_precondition.py", "obj1 != obj2 for obj1, obj2 in preconditions.inequality_preconditions", "obj1 == obj2 for obj1, obj2 in preconditions.inequality_preconditions"),
    ("c02-forall-first-object-only", "C02", P + "models/grounded_precondition.py", "                return False\n\n        return True\n\n    def _is_condition_applicable", "                return False\n            break\n\n        return True\n\n    def _is_condition_applicable"),
    ("c03-when-always-fires", "C03", P + "models/pddl_operator.py", "            if not effect.antecedents_hold(previous_state):", "            if False and not effect.antecedents_hold(previous_state):"),
    ("c03-rhs-on-new-state", "C03", P + "models/pddl_operator.py", "            effect.apply(new_state, previous_state)", "            effect.apply(new_state)"),
    ("c03-decrease-adds", "C03", P + "models/numerical_expression.py", "    value_to_decrease.set_value(previous_value - decrease_by)", "    value_to_decrease.set_value(previous_value + decrease_by)"),
    ("c03-forall-exact-type", "C03", P + "models/pddl_operator.py", "if not pddl_object.type.is_sub_type(universal_effect.quantified_type):", "if pddl_object.type.name != universal_effect.quantified_type.name:"),
    ("c04-state-not-advanced", "C04", P + "exporters/numeric_trajectory_exporter.py", "            previous_state = triplet.next_state\n", "            pass\n"),
    ("c04-apply-anyway", "C04", P + "exporters/numeric_trajectory_exporter.py", "            next_state = State(\n                predicates=previous_state.state_predicates,\n                fluents=previous_state.state_fluents,\n                is_init=False,\n            )", "            next_state = operator.apply(previous_state, allow_inapplicable_actions=True)"),
    ("c04-no-lower", "C04", P + "exporters/numeric_trajectory_exporter.py", 'action_data = action_call.lower().replace', 'action_data = action_call.replace'),
    ("c05-subtype-swapped", "C05", P + "lisp_parsers/problem_parser.py", "            assert grounded_object_type.is_sub_type(lifted_predicate_types[index])", "            assert lifted_predicate_types[index].is_sub_type(grounded_object_type)"),
    ("c05-arity-check-removed", "C05", P + "lisp_parsers/problem_parser.py", "        if len(predicate_signature_items) != len(lifted_predicate.signature):", "        if False:"),
    ("c05-int-values", "C05", P + "lisp_parsers/problem_parser.py", "            assigned_value = float(expression[2])", "            assigned_value = float(int(float(expression[2])))"),
    ("c06-subtype-one-level", "C06", P + "models/pddl_type.py", "        return PDDLType.is_sub_type_aux(my_type.parent, other_type)", "        return my_type.parent.name == other_type.name"),
    ("c06-grouped-children-lose-parent", "C06", P + "lisp_parsers/domain_parser.py", "            for descendant_type_name in same_types_objects:\n                parent_names[descendant_type_name] = parent_name", "            for descendant_type_name in same_types_objects[-1:]:\n                parent_names[descendant_type_name] = parent_name\n            for descendant_type_name in same_types_objects[:-1]:\n                parent_names.setdefault(descendant_type_name, \"object\")"),
    ("c14-copy-shares-fluents", "C14", P + "models/pddl_state.py", "            fluent_name: fluent.copy()\n            for fluent_name, fluent in self.state_fluents.items()", "            fluent_name: fluent\n            for fluent_name, fluent in self.state_fluents.items()"),
    ("c07-successor-stores-operator-function", "C07", P + "models/grounded_effect.py", "= new_value.copy()", "= new_value"),
    ("c07-default-types-aliased", "C07", P + "models/pddl_domain.py", "self.types = dict(DEFAULT_TYPES)", "self.types = DEFAULT_TYPES"),
    ("c08-negative-effect-printed-positive", "C08", P + "models/pddl_action.py", "sorted([effect.untyped_representation for effect in self.discrete_effects])", "sorted([effect.untyped_representation.replace('(not ', '')[:-1] if not effect.is_positive else effect.untyped_representation for effect in self.discrete_effects])"),
    ("c08-inequality-printed-as-equality", "C08", P + "models/pddl_precondition.py", '[f"(not (= {o1} {o2}))" for o1, o2 in self.inequality_preconditions]', '[f"(= {o1} {o2})" for o1, o2 in self.inequality_preconditions]'),
    ("c08-params-sorted", "C08", P + "exporters/domain_exporter.py", "                for name, parameter_type in action.signature.items()", "                for name, parameter_type in sorted(action.signature.items())"),
    ("c09-values-2f", "C09", P + "models/pddl_function.py", 'return f"(= ({self.name} {untyped_signature_str}) {self.value})"', 'return f"(= ({self.name} {untyped_signature_str}) {self.value:.1f})"'),
    ("c09-goals-from-init", "C09", P + "exporters/problem_exporter.py", "        predicates_str = self.extract_state_predicates(goal_state_predicates)\n", "        predicates_str = self.extract_state_predicates(goal_state_predicates[:-1])\n"),
    ("c10-values-int", "C10", P + "lisp_parsers/trajectory_parser.py", "                assigned_value = float(expression[2])", "                assigned_value = float(int(float(expression[2])))"),
    ("c10-component-wrong-state", "C10", P + "lisp_parsers/trajectory_parser.py", "observation.add_component(previous_state, action_call, next_state)", "observation.add_component(next_state, action_call, next_state)"),
    ("c11-no-lower", "C11", P + "lisp_parsers/pddl_tokenizer.py", "no_comments_line.lower().replace", "no_comments_line.replace"),
    ("c11-comment-only-at-line-start", "C11", P + "lisp_parsers/pddl_tokenizer.py", 'no_comments_line = re.sub(r";.*", "", line)', 'no_comments_line = line'),
    ("c11-trailing-accepted", "C11", P + "lisp_parsers/pddl_tokenizer.py", "        if len(tokens) > 0:\n            raise SyntaxError(\n                f\"Unexpected tokens after", "        if False:\n            raise SyntaxError(\n                f\"Unexpected tokens after"),
    ("c12-minus-swapped-on-right-nesting", "C12", P + "models/numerical_expression.py", '    "-": lambda x, y: x - y,', '    "-": lambda x, y: x - y if x >= 0 or y <= 100 else y - x,'),
    ("c12-geq-without-tolerance", "C12", P + "models/numerical_expression.py", '    ">=": lambda x, y: math.isclose(x, y, rel_tol=0.0, abs_tol=EPSILON) or (x > y),', '    ">=": lambda x, y: x >= y,'),
    ("c12-lt-with-tolerance", "C12", P + "models/numerical_expression.py", '    "<": lambda x, y: x < y,', '    "<": lambda x, y: x < y + EPSILON,'),
    ("c12-to_pddl-truncates", "C12", P + "models/numerical_expression.py", '"{number:.{digits}f}".format(number=node.value, digits=decimal_digits)', '"{number:.{digits}f}".format(number=int(node.value * 10 ** decimal_digits) / 10 ** decimal_digits, digits=decimal_digits)'),
    ("c13-leq-as-lt", "C13", P + "models/numeric_symbolic_operations.py", '    return f"({inequality_operator} {pddl_left_side} {pddl_right_side})"', '    return f"({inequality_operator.replace(\'<=\', \'<\')} {pddl_left_side} {pddl_right_side})"'),
    ("c13-digits-ignored", "C13", P + "models/numeric_symbolic_operations.py", '            format(expression, f".{decimal_digits}f")\n            if not round(float(expression), decimal_digits).is_integer()', '            format(expression, f".0f")\n            if not round(float(expression), decimal_digits).is_integer()'),
    ("c13-substitution-sign", "C13", P + "models/numeric_symbolic_operations.py", "            left_expr = left_expr.subs(eliminated_variables[0], solutions[0])", "            left_expr = left_expr.subs(eliminated_variables[0], -solutions[0])"),
    ("c13-lt-as-leq", "C13", P + "models/numeric_symbolic_operations.py", '    return f"({inequality_operator} {pddl_left_side} {pddl_right_side})"', '    return f"({inequality_operator if inequality_operator != \'<\' else \'<=\'} {pddl_left_side} {pddl_right_side})"'),
    ("c13-high-digits-lose-one", "C13", P + "models/numeric_symbolic_operations.py", '            format(expression, f".{decimal_digits}f")\n            if not round(float(expression), decimal_digits).is_integer()', '            format(expression, f".{decimal_digits if decimal_digits < 5 else decimal_digits - 3}f")\n            if not round(float(expression), decimal_digits).is_integer()'),
    ("c13-rational-sign-lost", "C13", P + "models/numeric_symbolic_operations.py", "        expression = Float(expression)\n", "        expression = Float(abs(expression))\n"),
    ("c13-substitute-left-side-only", "C13", P + "models/numeric_symbolic_operations.py", "            right_expr = right_expr.subs(eliminated_variables[0], solutions[0])\n", "            pass\n"),
    ("c14-eq-ignores-fluents", "C14", P + "models/pddl_state.py", "        return my_numeric_expressions == other_numeric_expressions", "        return len(my_numeric_expressions) == len(other_numeric_expressions)"),
    ("c14-copy-shares-predicate-sets", "C14", P + "models/pddl_state.py", "            predicate_name: {predicate.copy() for predicate in predicates}", "            predicate_name: predicates"),
    ("c15-last-action-dropped", "C15", P + "multi_agent/single_agent_plan_converter.py", "            if len(plan_actions) == 0:\n                joint_actions.append(JointActionCall(joint_action))\n                break", "            if len(plan_actions) == 0:\n                break"),
    ("c15-slot-off-by-one", "C15", P + "multi_agent/single_agent_plan_converter.py", "            joint_action[agent_names.index(agent)] = action\n", "            joint_action[(agent_names.index(agent) + 1) % len(agent_names)] = action\n"),
    ("c16-applicability-on-accumulated", "C16", P + "multi_agent/common.py", "        if operator.is_applicable(current_state) or allow_inapplicable_actions:", "        if operator.is_applicable(accumulative_changed_state) or allow_inapplicable_actions:"),
    ("c16-effects-on-original", "C16", P + "multi_agent/common.py", "            accumulative_changed_state = operator.apply(\n                accumulative_changed_state, allow_inapplicable_actions=True\n            )", "            accumulative_changed_state = operator.apply(\n                current_state, allow_inapplicable_actions=True\n            )"),
    ("c17-last-file-replaces-predicates", "C17", P + "multi_agent/multi_agent_domain_converter.py", "            combined_domain.predicates.update(agent_domain.predicates)", "            combined_domain.predicates = dict(agent_domain.predicates)"),
    ("c17-goal-duplicates-kept", "C17", P + "multi_agent/multi_agent_problem_converter.py", "            combined_problem.goal_state_predicates = list(\n                set(combined_problem.goal_state_predicates)\n            )", "            pass"),
    ("c18-preconditions-only", "C18", P + "models/pddl_action.py", "        self.discrete_effects = self._change_effects_signature(\n            self.discrete_effects, old_to_new_parameter_names\n        )", "        pass"),
    ("c18-inplace-rename", "C18", P + "models/pddl_predicate.py", "        self.signature = {\n            old_to_new_param_names.get(old_param_name, old_param_name): param_type\n            for old_param_name, param_type in self.signature.items()\n        }", "        for old_param_name in list(self.signature.keys()):\n            new_param_name = old_to_new_param_names.get(old_param_name, old_param_name)\n            self.signature[new_param_name] = self.signature.pop(old_param_name)"),
    ("c19-anchored-single-digit", "C19", P + "exporters/ff_output_parser.py", 'PLAN_COMPONENT_REGEX = r"\\d: ', 'PLAN_COMPONENT_REGEX = r"^\\w*\\s+\\d: '),
    ("c19-no-lower", "C19", P + "exporters/ff_output_parser.py", "action_sequence.lower().strip()", "action_sequence.strip()"),
    ("c20-constants-via-call-map", "C20", P + "models/grounding_utils.py", "        if predicate_params[index] in domain.constants:\n            predicate_object_mapping[parameter_name] = predicate_params[index]", "        if predicate_params[index] in domain.constants:\n            predicate_object_mapping[parameter_name] = predicate_params[index] if predicate_params[index] not in parameters_map.values() else list(parameters_map.values())[0]"),
    ("c20-typed-form-declared-type", "C20", P + "models/grounding_utils.py", "            predicate_signature[domain_def_parameter] = action.signature[\n                lifted_predicate_param_name\n            ]", "            pass"),
]


def run(cmd, **kw):
    return subprocess.run(cmd, shell=True, stdout=subprocess.PIPE, stderr=subprocess.STDOUT, text=True, **kw)


def main():
    want = set(sys.argv[1:])
    out_path = os.path.join(HERE, "selftest_results.json")
    try:
        results = json.load(open(out_path))
    except Exception:
        results = {}
    for mid, pid, path, old, new in M:
        if want and mid not in want and pid not in want:
            continue
        d = tempfile.mkdtemp(prefix="mut-")
        try:
            run(f"git -C {REPO} worktree add -q --detach {d}/r HEAD")
            fp = os.path.join(d, "r", path)
            src = open(fp).read()
            if old not in src:
                results[mid] = {"property": pid, "status": "patch-does-not-apply"}
                print(mid, "PATCH DOES NOT APPLY")
                continue
            open(fp, "w").write(src.replace(old, new, 1))
            r = run(f"cd {d}/r && PYTHONPATH={d}/r /venv/bin/python -m pytest -q -p no:cacheprovider --timeout=900 --continue-on-collection-errors 2>&1 | tail -1")
            pinned_ok = "63 passed" in r.stdout
            if not pinned_ok:
                results[mid] = {"property": pid, "status": "dropped: pinned suite no longer passes", "pytest": r.stdout.strip()[-200:]}
                print(mid, "dropped (pinned suite):", r.stdout.strip()[-80:])
                continue
            r = run(f"cd {HERE} && VERIF_REPO={d}/r /venv/bin/python check {pid} --tier quick", env=dict(os.environ, VERIF_REPO=f"{d}/r", VERIF_EVIDENCE_DIR=f"{d}/evidence"))
            mechs = sorted({ln.split("mechanism:")[1].strip() for ln in r.stdout.splitlines() if "mechanism:" in ln})
            caught = r.returncode == 1 and "VIOLATION" in r.stdout
            results[mid] = {"property": pid, "status": "caught" if caught else f"MISSED (exit {r.returncode})", "mechanisms": mechs[:6],
                            "file": path}
            print(mid, results[mid]["status"], mechs[:3])
        finally:
            run(f"git -C {REPO} worktree remove --force {d}/r")
            shutil.rmtree(d, ignore_errors=True)
        json.dump(results, open(out_path, "w"), indent=1, sort_keys=True)


if __name__ == "__main__":
    main()

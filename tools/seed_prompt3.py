"""round-3 prompt: the property text + what the two earlier seeds did, asking for a third kind"""
import json, subprocess, sys
pid = sys.argv[1]
wt = f'/tmp/seed-{pid}c'
notes = []
for name in (pid, pid + 'b'):
    notes.append(json.load(open(f'/verif/seeded/{name}/meta.json'))['agent_notes'][:700])
txt = subprocess.check_output(['/venv/bin/python', '/verif/tools/seed_prompt.py', pid]).decode().replace(f'/tmp/seed-{pid}', wt)
extra = f"""

ADDITIONAL REQUIREMENT: two other engineers already produced changes for this property; their notes start like this:
--- first ---
{notes[0]}
--- second ---
{notes[1]}
---
Your change must be of a THIRD kind: another function / another mechanism / another input class than both (do not touch the same lines, do not make a variation of either idea). Read the property statement again clause by clause and pick a clause (or a part of the quantifier) that neither of them attacks. Prefer a change a maintainer could plausibly make by accident during a refactor or an optimisation, whose effect shows only for some inputs.
"""
print(txt + extra)

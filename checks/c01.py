"""C01 - domain text is parsed faithfully or rejected, never silently altered.

Monitor: DomainParser(path).parse_domain() and, for every accepted domain, the public vocabulary
attributes and the behaviour (is_applicable / apply) of every action on covering states, vs an
independent reading of the same text (refpddl).  Per input: rejected at parse (always fine), else
vocabulary must match and every probe must be faithful-or-raise; for forms the model itself cannot
interpret (undeclared predicate, wrong arity, oneof ...) an exception is the only acceptable outcome."""
import os

from vlib import sx, lib, model, gen, probe, env, selftest

RULE = ("domain texts of the supported grammar (typing with single/grouped/untyped-tail parameters, shuffled type "
        "declarations, constants, negative literals, (in)equality, nested and/or, forall preconditions, numeric comparisons, "
        "assign/increase/decrease, when, forall-when) under random layout / case / comment placement, each optionally with one "
        "inserted form from the unsupported list; a case = one domain text; distinct by text; non-trivial when the domain was "
        "accepted and at least one action was compared on both an applicable and an inapplicable state, or when it carried an "
        "unsupported form")
DECISIVE = ["compared:vocabulary", "compared:behaviour"]
DECISIVE_EACH = ["compared:vocabulary", "compared:behaviour", "unsupported_forms_judged"]
ASSUMPTIONS = ["refpddl reads a superset of the library's fragment (imply, exists, not over compounds, either, n-ary + *, unary -, scale-up/down, multi-variable forall, nested and in effects)",
               "rejection (any exception at parse, ground, is_applicable or apply) is always acceptable",
               "constants never inhabit quantified types; numeric values on a dyadic grid"]
SHARDS = {"quick": 16, "thorough": 16}

UNSUPPORTED = ["single-literal-pre", "top-not-pre", "top-or-pre", "imply", "exists", "not-compound", "either-param",
               "nary-plus", "nary-times", "unary-minus", "scale-up", "scale-down", "undeclared-pred-pre", "undeclared-pred-eff",
               "undeclared-neg-pre", "undeclared-neg-eff", "wrong-arity-pre", "wrong-arity-eff", "repeated-arg-pre",
               "repeated-arg-eff", "repeated-arg-fluent", "nested-and-effect", "oneof", "non-and-effect", "multi-var-forall-pre",
               "multi-var-forall-eff", "forall-literal-body-pre", "forall-no-when-eff", "when-in-when", "constant-equality",
               "nested-forall-pre", "undeclared-function", "forall-in-when-condition", "forall-and-body-eff",
               "wrong-arity-fluent-pre", "wrong-arity-fluent-eff"]


def some_pred(rng, w, arity=None):
    c = [p for p, s in w.preds.items() if arity is None or len(s) == arity]
    return rng.choice(c) if c else None


def var_of(rng, w, params, ty):
    c = [v for v, t in params if w.subtype(t, ty)]
    return rng.choice(c) if c else None


def lit_over(rng, w, params, pn):
    args = []
    for _, t in w.preds[pn]:
        v = var_of(rng, w, params, t)
        if v is None:
            return None
        args.append(v)
    return [pn] + args


def insert_unsupported(rng, w, act, form):
    """mutates act (dict name/params/pre/eff) ; returns False if the form cannot be built in this world"""
    params = act["params"]
    if not params:
        return False  # the forms below are built over a parameter of the action
    unary = [p for p, s in w.preds.items() if len(s) == 1 and var_of(rng, w, params, s[0][1])]
    binary = [p for p, s in w.preds.items() if len(s) == 2 and all(var_of(rng, w, params, t) for _, t in s)]
    l1 = lit_over(rng, w, params, rng.choice(unary)) if unary else None
    l2 = lit_over(rng, w, params, rng.choice(unary)) if unary else None
    f0 = [f for f, s in w.funcs.items() if len(s) == 0]
    fterm = gen.gen_fluent_term(rng, w, params, use_constants=0.0)
    if form == "single-literal-pre":
        if not l1:
            return False
        act["pre"] = l1
    elif form == "top-not-pre":
        if not l1:
            return False
        act["pre"] = ["not", l1]
    elif form == "top-or-pre":
        if not (l1 and l2):
            return False
        act["pre"] = ["or", l1, ["not", l2]]
    elif form == "imply":
        if not (l1 and l2):
            return False
        act["pre"] = act["pre"] + [["imply", l1, l2]]
    elif form == "exists":
        tys = [t for t in w.type_names() if w.things_of(t, False) and not any(w.subtype(ct, t) for ct in w.constants.values())]
        cands = [(p, s) for p, s in w.preds.items() if len(s) == 1 and any(w.subtype(t, s[0][1]) for t in tys)]
        if not cands:
            return False
        p, s = rng.choice(cands)
        ty = rng.choice([t for t in tys if w.subtype(t, s[0][1])])
        act["pre"] = act["pre"] + [["exists", ["?e", "-", ty], [p, "?e"]]]
    elif form == "not-compound":
        if not (l1 and l2):
            return False
        act["pre"] = act["pre"] + [["not", [rng.choice(["and", "or"]), l1, ["not", l2]]]]
    elif form == "either-param":
        tn = w.type_names()
        if len(tn) < 2:
            return False
        a, b = rng.sample(tn, 2)
        act["params"] = params + [("?ei", ("either", a, b))]
    elif form in ("nary-plus", "nary-times"):
        if not fterm:
            return False
        op = "+" if form == "nary-plus" else "*"
        # operand shapes: fluent + literals, literals only, nested operand, four operands; in a condition or in an effect
        operands = rng.choice([[fterm, "1", "2"], ["1", "2", "3"], ["2", "3", "4", "0.5"], [["-", fterm, "1"], "2", "3"], ["2", fterm, fterm]])
        term = [op] + operands
        if rng.random() < 0.6:
            cmp_ = [rng.choice([">=", "<="]), term, "3"] if rng.random() < 0.5 else [rng.choice([">=", "<="]), fterm, term]
            act["pre"] = act["pre"] + [cmp_]
        else:
            act["eff"] = ["and", [rng.choice(["increase", "assign"]), fterm, term]] + \
                         [e for e in act["eff"][1:] if e[0] not in ("assign", "increase", "decrease") or e[1] != fterm]
    elif form == "unary-minus":
        if not fterm:
            return False
        act["pre"] = act["pre"] + [[">=", ["-", fterm], "0"]]
    elif form in ("scale-up", "scale-down"):
        if not fterm:
            return False
        act["eff"] = ["and", [form, fterm, "2"]] + [e for e in act["eff"][1:] if e[0] not in ("assign", "increase", "decrease") or e[1] != fterm]
    elif form == "undeclared-pred-pre":
        act["pre"] = act["pre"] + [["ghost", params[0][0]]]
    elif form == "undeclared-neg-pre":
        act["pre"] = act["pre"] + [["not", ["ghost", params[0][0]]]]
    elif form == "undeclared-pred-eff":
        act["eff"] = act["eff"] + [["ghost", params[0][0]]]
    elif form == "undeclared-neg-eff":
        act["eff"] = act["eff"] + [["not", ["ghost", params[0][0]]]]
    elif form in ("wrong-arity-pre", "wrong-arity-eff"):
        if not l1:
            return False
        bad = l1 + [params[0][0]] if rng.random() < 0.5 or len(l1) < 2 else l1[:-1]
        if form == "wrong-arity-pre":
            act["pre"] = act["pre"] + [bad if rng.random() < 0.5 else ["not", bad]]
        else:
            act["eff"] = act["eff"] + [bad if rng.random() < 0.5 else ["not", bad]]
    elif form in ("repeated-arg-pre", "repeated-arg-eff"):
        cands = []
        for p, s in w.preds.items():
            if len(s) == 2:
                for v, t in params:
                    if w.subtype(t, s[0][1]) and w.subtype(t, s[1][1]):
                        cands.append([p, v, v])
        if not cands:
            return False
        a = rng.choice(cands)
        if form == "repeated-arg-pre":
            act["pre"] = act["pre"] + [a if rng.random() < 0.5 else ["not", a]]
        else:
            act["eff"] = ["and", a if rng.random() < 0.5 else ["not", a]] + [e for e in act["eff"][1:] if not (e[0] == a[0] or (e[0] == "not" and e[1][0] == a[0]))]
    elif form == "repeated-arg-fluent":
        cands = []
        for f, s in w.funcs.items():
            if len(s) == 2:
                for v, t in params:
                    if w.subtype(t, s[0][1]) and w.subtype(t, s[1][1]):
                        cands.append([f, v, v])
        if not cands:
            return False
        a = rng.choice(cands)
        act["pre"] = act["pre"] + [[">=", a, "0"]]
    elif form == "nested-and-effect":
        if len(act["eff"]) < 2:
            return False
        act["eff"] = ["and", ["and"] + act["eff"][1:]]
    elif form == "oneof":
        if not (l1 and l2):
            return False
        act["eff"] = act["eff"] + [["oneof", l1, ["not", l2]]]
    elif form == "non-and-effect":
        if not l1:
            return False
        act["eff"] = l1 if rng.random() < 0.5 else ["not", l1]
    elif form in ("multi-var-forall-pre", "multi-var-forall-eff"):
        tys = [t for t in w.type_names() if w.things_of(t, False) and not any(w.subtype(ct, t) for ct in w.constants.values())]
        cands = [(p, s) for p, s in w.preds.items() if len(s) == 2 and any(w.subtype(t, s[0][1]) and w.subtype(t, s[1][1]) for t in tys)]
        if not cands:
            return False
        p, s = rng.choice(cands)
        ty = rng.choice([t for t in tys if w.subtype(t, s[0][1]) and w.subtype(t, s[1][1])])
        if form.endswith("pre"):
            act["pre"] = act["pre"] + [["forall", ["?u", "?v", "-", ty], ["and", [p, "?u", "?v"]]]]
        else:
            act["eff"] = ["and", ["forall", ["?u", "?v", "-", ty], ["when", ["and", [p, "?u", "?v"]], ["not", [p, "?v", "?u"]]]]] + \
                         [e for e in act["eff"][1:] if isinstance(e, list) and e[0] not in (p, "not", "when", "forall")]
    elif form in ("forall-literal-body-pre", "forall-no-when-eff", "nested-forall-pre", "forall-and-body-eff"):
        tys = [t for t in w.type_names() if w.things_of(t, False) and not any(w.subtype(ct, t) for ct in w.constants.values())]
        cands = [(p, s) for p, s in w.preds.items() if len(s) == 1 and any(w.subtype(t, s[0][1]) for t in tys)]
        if not cands:
            return False
        p, s = rng.choice(cands)
        ty = rng.choice([t for t in tys if w.subtype(t, s[0][1])])
        if form == "forall-literal-body-pre":
            act["pre"] = act["pre"] + [["forall", ["?u", "-", ty], [p, "?u"]]]
        elif form == "nested-forall-pre":
            act["pre"] = act["pre"] + [["forall", ["?u", "-", ty], ["and", ["forall", ["?v", "-", ty], ["or", [p, "?u"], ["not", [p, "?v"]]]]]]]
        elif form == "forall-and-body-eff":
            # an unconditional universal effect with a two-literal body: must not be read as (when first second)
            z = some_pred(rng, w, 0)
            second = [z] if z else [p, "?u"]
            body = ["and", [p, "?u"], second] if rng.random() < 0.5 else ["and", second, [p, "?u"]]
            act["eff"] = ["and", ["forall", ["?u", "-", ty], body]] + [e for e in act["eff"][1:] if isinstance(e, list) and e[0] not in (p, z, "not", "when", "forall")]
        else:
            act["eff"] = ["and", ["forall", ["?u", "-", ty], [p, "?u"]]] + [e for e in act["eff"][1:] if isinstance(e, list) and e[0] not in (p, "not", "when", "forall")]
    elif form == "when-in-when":
        if not (l1 and l2):
            return False
        act["eff"] = ["and", ["when", l1, ["and", ["when", ["not", l2], l2]]]]
    elif form == "constant-equality":
        if not w.constants:
            return False
        # prefer a (parameter, constant) pair for which the equality can actually hold in a type-correct call
        pairs = [(v, k) for v, t in params for k, kt in w.constants.items() if w.subtype(kt, t)]
        v, k = rng.choice(pairs) if pairs else (params[0][0], rng.choice(list(w.constants)))
        act["pre"] = act["pre"] + [rng.choice([["=", v, k], ["not", ["=", v, k]], ["=", k, v], ["not", ["=", k, v]]])]
    elif form in ("wrong-arity-fluent-pre", "wrong-arity-fluent-eff"):
        # a function term with one argument too many, one too few, or none at all
        if not fterm or len(fterm) < 2:
            return False
        other = [v for v, _ in params if v not in fterm[1:]]
        bad = rng.choice([fterm + [rng.choice(other) if other else "k-extra"], fterm[:-1], fterm[:1]])
        if bad == fterm or (len(bad) == 1 and len(w.funcs[fterm[0]]) == 0):
            return False
        if form.endswith("pre"):
            act["pre"] = act["pre"] + [[rng.choice([">=", "<"]), bad, "0"]]
        else:
            act["eff"] = ["and", [rng.choice(["increase", "assign"]), bad, "1"]] + \
                         [e for e in act["eff"][1:] if e[0] not in ("assign", "increase", "decrease") or e[1][0] != fterm[0]]
    elif form == "undeclared-function":
        act["pre"] = act["pre"] + [[">=", ["ghostf"], "0"]]
    elif form == "forall-in-when-condition":
        tys = [t for t in w.type_names() if w.things_of(t, False) and not any(w.subtype(ct, t) for ct in w.constants.values())]
        cands = [(p, s) for p, s in w.preds.items() if len(s) == 1 and any(w.subtype(t, s[0][1]) for t in tys)]
        if not cands or not l1:
            return False
        p, s = rng.choice(cands)
        ty = rng.choice([t for t in tys if w.subtype(t, s[0][1])])
        act["eff"] = ["and", ["when", ["forall", ["?u", "-", ty], ["and", [p, "?u"]]], l1 if l1[0] != p else ["not", l1]]]
    else:
        return False
    return True


def shuffled_types_items(rng, w):
    """a random legal rendering of the :types section (order / grouping / untyped tail), cf. C06"""
    par = dict(w.types)
    groups = {}
    for c, p in par.items():
        groups.setdefault(p, []).append(c)
    lines, tail = [], []
    for p, cs in groups.items():
        cs = cs[:]
        rng.shuffle(cs)
        if p == "object" and rng.random() < 0.4:
            tail = cs
            continue
        while cs:
            k = rng.randint(1, len(cs))
            lines.append(cs[:k] + ["-", p])
            cs = cs[k:]
    rng.shuffle(lines)
    return [x for ln in lines for x in ln] + tail


def vocabulary_of_lib(dom):
    def sig(s):
        return [(k, getattr(v, "name", str(v))) for k, v in s.items()]
    return {
        "types": {n: (t.parent.name if getattr(t, "parent", None) is not None else None) for n, t in dom.types.items()},
        "constants": {n: c.type.name for n, c in dom.constants.items()},
        "predicates": {n: sig(p.signature) for n, p in dom.predicates.items()},
        "functions": {n: sig(f.signature) for n, f in dom.functions.items()},
        "actions": {n: sig(a.signature) for n, a in dom.actions.items()},
    }


def vocabulary_of_model(dm: model.RefDomain):
    types = {t: dm.parent.get(t) for t in dm.type_names()}
    types["object"] = None
    return {
        "types": types,
        "constants": dict(dm.constants),
        "predicates": {n: list(s) for n, s in dm.predicates.items()},
        "functions": {n: list(s) for n, s in dm.functions.items()},
        "actions": {n: list(a.params) for n, a in dm.actions.items()},
    }


def compare_vocab(vl, vm):
    diffs = []
    for sec in ("types", "constants", "predicates", "functions", "actions"):
        a, b = vl[sec], vm[sec]
        for k in set(a) | set(b):
            if k not in a:
                diffs.append(f"{sec}: '{k}' missing from the parsed domain")
            elif k not in b:
                diffs.append(f"{sec}: '{k}' not in the source")
            else:
                x, y = a[k], b[k]
                if isinstance(y, list) and any(isinstance(t, tuple) for _, t in y):
                    continue  # either-typed signature: judged by behaviour only
                if isinstance(x, list):
                    x = [tuple(i) for i in x]
                    y = [tuple(i) for i in y]
                if x != y:
                    diffs.append(f"{sec}: '{k}' parsed as {x}, source says {y}")
    return diffs


def judge_text(ctx, rng, w, text, form, affected, wit_base, n_calls, thorough):
    """parse + vocabulary + behaviour for one domain text"""
    try:
        dm = model.RefDomain.from_text(text)
        model_ok = True
    except Exception as e:
        dm, model_ok = None, False
    try:
        dom = lib.parse_domain_text(text)
    except BaseException as e:
        ctx.count("outcome:rejected-at-parse")
        if form:
            ctx.count(f"form:{form}:rejected-at-parse")
            ctx.count("unsupported_forms_judged")
        else:
            ctx.count("supported_text_rejected")
            ctx.notes.setdefault("supported_rejected_example", {"error": lib.exc_name(e), "text": text[:1200]})
        return "rejected"
    if not model_ok:
        ctx.count("model_cannot_read")
        return "unjudged"
    # ---- V --------------------------------------------------------------------------------
    ctx.count("compared:vocabulary")
    diffs = compare_vocab(vocabulary_of_lib(dom), vocabulary_of_model(dm))
    if diffs:
        ctx.violation("vocabulary-differs-from-source" + (f"[{form}]" if form in ("either-param",) else ""),
                      dict(wit_base, differences=diffs[:6]))
    # ---- B --------------------------------------------------------------------------------
    pr = probe.Probe(dom, dm, w)
    outcome_form = None
    both = False
    for aname in dm.actions:
        is_aff = aname == affected
        seen_app = set()
        raised = faithful = 0
        bad = None
        malformed = False
        for call, states in pr.cases(rng, aname, n_calls=n_calls, bits=6 if thorough else 5, max_states=24 if thorough else 12):
            for st in states:
                exp = pr.expected(aname, call, st)
                if exp[0] == "outside":
                    ctx.count("skipped_outside_quantifier")
                    continue
                if exp[0] == "malformed":
                    malformed = True
                    # the only acceptable outcome is an exception by the time the action has been used
                    got = full_use(pr, aname, call, st)
                    ctx.count("compared:behaviour")
                    if got is None:
                        raised += 1
                    else:
                        bad = {"kind": "uninterpretable-form-accepted", "model_says": exp[1], "library_returned": got,
                               "call": list(call), "state": model.show_state(st)}
                    break
                obs = pr.observe(aname, call, st)
                ctx.count("compared:behaviour")
                if obs[0] == "raised":
                    raised += 1
                    ctx.count("probe_raised:" + obs[1])
                    if obs[1] != "state":
                        break  # the action refuses: acceptable, no need to hammer it
                    continue
                seen_app.add(exp[1])
                d = pr.compare(exp, obs)
                if d:
                    bad = dict(d, call=list(call), state=model.show_state(st))
                    if d["kind"] == "successor":
                        bad["expected_successor"] = model.show_state(exp[2])
                        bad["observed_successor"] = model.show_state(obs[2])
                    break
                faithful += 1
            if bad or malformed:
                break
        if len(seen_app) == 2:
            both = True
        a = dm.actions[aname]
        if bad:
            kind = bad["kind"]
            tag = form if (is_aff and form) else "supported-grammar"
            ctx.violation(f"silently-altered:{kind}[{tag}]",
                          dict(wit_base, action=aname, precondition=sx.plain(a.pre) if a.pre is not None else None,
                               effect=sx.plain(a.eff) if a.eff is not None else None, discrepancy=bad))
            if is_aff:
                outcome_form = "silently-altered"
        elif is_aff:
            outcome_form = "rejected-at-use" if (raised and not faithful) else ("faithful" if faithful else "unprobed")
    if form:
        ctx.count(f"form:{form}:{outcome_form or 'unprobed'}")
        ctx.count("unsupported_forms_judged")
    else:
        ctx.count("outcome:accepted-supported")
    return "both" if both else "accepted"


def full_use(pr, aname, call, st):
    """ground + is_applicable + apply(allow_inapplicable) on one state; None if anything raised"""
    try:
        s = pr.sf.state(st, fresh=True)
    except BaseException:
        return None
    try:
        op = lib.make_operator(pr.dom, aname, call, pr.sf.objects_table())
        op.ground()
        a = op.is_applicable(s)
        n = op.apply(s, allow_inapplicable_actions=True)
        return {"is_applicable": a, "apply": model.show_state(lib.read_state(n))}
    except BaseException:
        return None


def gen_case(rng, thorough):
    w = gen.gen_world(rng, max_arity=2)
    if rng.random() < 0.3:
        w.types.append((f"t{len(w.types)}", "object"))
    acts = []
    for i in range(rng.randint(2, 4)):
        params = gen.gen_params(rng, w)
        if rng.random() < 0.2:
            params = params + [(f"?x{len(params)}", "object")]
        pre = gen.gen_formula(rng, w, params, depth=rng.choice([1, 2]), width=3)
        eff = gen.gen_effect(rng, w, params, n=rng.randint(1, 4))
        acts.append({"name": f"a{i}", "params": params, "pre": pre, "eff": eff})
    w.actions = acts
    return w


def run(ctx):
    lib.assert_repo()
    rng = ctx.rng("c01")
    thorough = ctx.tier == "thorough"
    n = 1250 if thorough else 40
    for i in range(n):
        if ctx.over_budget():
            break
        if not ctx.next_case():
            continue
        ctx.count("cases")
        w = gen_case(rng, thorough)
        form, affected = None, None
        if rng.random() < 0.6:
            form = UNSUPPORTED[(i * ctx.nshards + ctx.shard) % len(UNSUPPORTED)]
            act = rng.choice([a for a in w.actions if a["params"]] or w.actions)
            if insert_unsupported(rng, w, act, form):
                affected = act["name"]
            else:
                form = None
        style = rng.choice(["single", "single", "grouped", "untyped_tail"])
        titems = shuffled_types_items(rng, w) if rng.random() < 0.5 else None
        cstyle = rng.choice(["single", "single", "grouped", "untyped_tail"])
        ast = w.domain_ast(param_style=style, types_items=titems, const_style=cstyle)
        if form == "either-param":
            # typed_items rendered the tuple type; turn it into a list form
            ast = fix_either(ast)
        hostile = rng.choice([0.0, 0.2, 0.6])
        upper = rng.choice([0.0, 0.0, 0.4, 1.0])
        text = sx.render(ast, rng, hostile=hostile, upper=upper, crlf=rng.random() < 0.2)
        feats = {"params:" + style, "constants:" + cstyle + ("+root-typed" if "object" in w.constants.values() else ""), "layout:hostile" if hostile else "layout:plain", "case:mixed" if upper else "case:lower",
                 "types:shuffled" if titems else "types:parents-first"}
        for a in w.actions:
            feats |= {f for f in gen.features_of(a["pre"]) | gen.features_of(a["eff"]) if "@" not in f}
        wit = {"domain_text": text, "form": form, "affected_action": affected, "objects": w.objects,
               "rendering": {"params": style, "hostile": hostile, "upper": upper}}
        r = judge_text(ctx, rng, w, text, form, affected, wit, n_calls=3 if thorough else 2, thorough=thorough)
        if r in ("both", "accepted"):
            ctx.feat(feats)
        if r == "both" or form:
            ctx.nontrivial(text)
        if i < 2 and ctx.shard == 0:
            ctx.sample({"text": text[:1500], "form": form, "outcome": r})
    if thorough:
        shipped(ctx, rng)


def fix_either(t):
    if isinstance(t, tuple):
        return [fix_either(x) for x in t]
    if isinstance(t, list):
        return [fix_either(x) for x in t]
    return t


def shipped(ctx, rng):
    """vocabulary of every shipped domain file vs the reference reading of the same file"""
    root = os.path.join(env.repo_path(), "tests")
    files = []
    for d, _, fs in os.walk(root):
        for f in fs:
            if f.endswith(".pddl"):
                files.append(os.path.join(d, f))
    for j, fp in enumerate(sorted(files)):
        if j % ctx.nshards != ctx.shard:
            continue
        with open(fp, errors="replace") as f:
            text = f.read()
        try:
            ast = sx.read(text)
            if not any(isinstance(s, list) and s and s[0] == "domain" for s in ast[1:]):
                continue
            dm = model.RefDomain.from_ast(ast)
        except Exception:
            ctx.count("shipped_outside_model")
            continue
        if not ctx.next_case():
            continue
        ctx.count("cases")
        ctx.count("shipped_domains")
        try:
            from pathlib import Path
            dom = lib.DomainParser(Path(fp)).parse_domain()
        except BaseException as e:
            ctx.count("shipped_rejected")
            ctx.notes.setdefault("shipped_rejected", []).append([os.path.relpath(fp, root), lib.exc_name(e)])
            continue
        ctx.count("compared:vocabulary")
        diffs = compare_vocab(vocabulary_of_lib(dom), vocabulary_of_model(dm))
        if diffs:
            ctx.violation("vocabulary-differs-from-source[shipped]", {"file": os.path.relpath(fp, root), "differences": diffs[:8]})

"""C06 - the subtype relation is the closure of the declared type tree, in any declaration order.

Observed through: is_sub_type for all pairs of domain.types, presence of every named type,
create_type_hierarchy_graph reachability, accept/reject of problem facts / fluents / constant
arguments for every (object type, required type) pair, the objects touched by a forall effect and
ranged over by a forall precondition.  Oracle: closure of the edge list (rendering-independent)."""
import itertools

from vlib import sx, lib, model, env

RULE = ("type forests (all labelled forests with <= 4 types: exhaustive; random forests to depth 4 / width 4) each under "
        "permutations and regroupings of its declaration lines (children before parents, parents never on a left-hand "
        "side, trailing untyped names, explicit '- object'); a case = (forest, rendering); non-trivial when the forest "
        "has a chain of length >= 2 or a parent declared after its child; distinct by rendered :types text")
DECISIVE = ["compared"]
DECISIVE_EACH = ["compared:is_sub_type", "compared:fact", "compared:fluent", "compared:forall-effect", "compared:forall-pre"]
EXHAUSTIVE = "all labelled forests with <= 4 types x all orders of their (regrouped) declaration lines (thorough); 10% sample (quick)"
ASSUMPTIONS = ["closure computed from the generator's edge list is the specification",
               "constants never inhabit a quantified type here (their membership in quantifier ranges is caller-dependent)"]
SHARDS = {"quick": 8, "thorough": 16}


def forests(n):
    """all parent maps over t0..t(n-1) (parent in {object, other types}) that are acyclic"""
    names = [f"t{i}" for i in range(n)]
    for choice in itertools.product(*[["object"] + [x for x in names if x != nm] for nm in names]):
        par = dict(zip(names, choice))
        ok = True
        for nm in names:
            seen, t = set(), nm
            while t != "object":
                if t in seen:
                    ok = False
                    break
                seen.add(t)
                t = par[t]
            if not ok:
                break
        if ok:
            yield par


def closure(par, a, b):
    t = a
    while True:
        if t == b:
            return True
        if t == "object":
            return False
        t = par[t]


def renderings(par, rng, max_n):
    """declaration-line renderings of a forest: list of (items, tags)"""
    names = list(par)
    groups = {}
    for c, p in par.items():
        groups.setdefault(p, []).append(c)
    out = []

    def lines_from(split_all, omit_bare_roots, untyped_tail, rng_local):
        lines = []
        for p, cs in groups.items():
            cs = cs[:]
            rng_local.shuffle(cs)
            if p == "object":
                continue
            if split_all:
                lines += [([c], p) for c in cs]
            else:
                # random regrouping
                while cs:
                    k = rng_local.randint(1, len(cs))
                    lines.append((cs[:k], p))
                    cs = cs[k:]
        roots = groups.get("object", [])[:]
        rng_local.shuffle(roots)
        tail = []
        for r in roots:
            is_parent_somewhere = r in groups
            if omit_bare_roots and is_parent_somewhere:
                continue  # a parent that never appears on a left-hand side
            if untyped_tail:
                tail.append(r)
            else:
                lines.append(([r], "object"))
        return lines, tail

    seen = set()
    variants = [(True, False, False), (False, False, False), (True, True, False), (True, False, True),
                (False, True, True), (False, False, True), (True, True, True)]
    for (split_all, omit, tail_u) in variants:
        lines, tail = lines_from(split_all, omit, tail_u, rng)
        perms = list(itertools.permutations(range(len(lines)))) if len(lines) <= 4 else None
        if perms is None:
            perms = [tuple(rng.sample(range(len(lines)), len(lines))) for _ in range(24)]
        for perm in perms:
            items = []
            for i in perm:
                cs, p = lines[i]
                items += cs + ["-", p]
            items += tail
            key = " ".join(items)
            if key in seen:
                continue
            seen.add(key)
            tags = set()
            if omit:
                tags.add("parent-never-on-lhs")
            if tail_u and tail:
                tags.add("untyped-tail")
            if not split_all:
                tags.add("grouped")
            # child declared before its parent's own line?
            pos = {}
            for k, i in enumerate(perm):
                for c in lines[i][0]:
                    pos[c] = k
            if any(p in pos and pos[c] < pos[p] for c, p in par.items() if p != "object"):
                tags.add("child-before-parent")
            out.append((items, tags))
    rng.shuffle(out)
    return out[:max_n]


def build_domain(par, types_items, const_type=None):
    """a domain whose vocabulary has one unary predicate / fluent per type"""
    tn = list(par) + ["object"]
    preds = [["marked", "?x", "-", "object"], ["tok"]]
    funcs = []
    actions = []
    for t in tn:
        preds.append([f"needs-{t}", "?x", "-", t])
        preds.append([f"pair-{t}", "?u", "-", "object", "?v", "-", "object", "?x", "-", t])
        funcs.append([f"lvl-{t}", "?x", "-", t])
        funcs.append([f"w-{t}", "?u", "-", "object", "?v", "-", "object", "?x", "-", t])
        actions.append([":action", f"mark-{t}", ":parameters", [], ":precondition", ["and", ["tok"]],
                        ":effect", ["and", ["forall", ["?o", "-", t], ["when", ["and", ["tok"]], ["marked", "?o"]]]]])
        actions.append([":action", f"chk-{t}", ":parameters", [], ":precondition",
                        ["and", ["tok"], ["forall", ["?o", "-", t], ["and", ["marked", "?o"]]]],
                        ":effect", ["and", ["not", ["tok"]]]])
    secs = [["domain", "ty"], [":requirements", ":typing"], [":types"] + types_items]
    if const_type:
        secs.append([":constants", "kc", "-", const_type])
    secs += [[":predicates"] + preds, [":functions"] + funcs] + actions
    return ["define"] + secs


def problem_ast(objects, init):
    objs = []
    for o, t in objects.items():
        objs += [o, "-", t]
    return ["define", ["problem", "pr"], [":domain", "ty"], [":objects"] + objs, [":init"] + init, [":goal", ["and"]]]


def check_rendering(ctx, par, items, tags, rng, deep):
    tn = list(par) + ["object"]
    text = sx.plain(build_domain(par, items))
    wit = {"forest": par, "types_section": " ".join(items), "tags": sorted(tags)}
    ctx.count("compared:renderings")
    ctx.feat(tags or {"plain"})
    nontrivial = any(par[p] != "object" for c, p in par.items() if p != "object") or "child-before-parent" in tags
    if nontrivial:
        ctx.nontrivial(" ".join(items) + "|" + repr(sorted(par.items())))
    try:
        dom = lib.parse_domain_text(text)
    except BaseException as e:
        ctx.count("compared")
        ctx.violation("valid-types-section-rejected", dict(wit, observed=lib.exc_name(e)))
        return
    # (a) presence + all pairs
    missing = [t for t in tn if t not in dom.types]
    ctx.count("compared")
    if missing:
        ctx.violation("declared-type-missing-from-domain.types", dict(wit, missing=missing))
    wrong = []
    for a in tn:
        for b in tn:
            if a in dom.types and b in dom.types:
                try:
                    got = dom.types[a].is_sub_type(dom.types[b])
                except BaseException as e:
                    got = lib.exc_name(e)
                ctx.count("compared")
                ctx.count("compared:is_sub_type")
                if got != closure(par, a, b):
                    wrong.append((a, b, got))
    if wrong:
        ctx.violation("is_sub_type-differs-from-closure", dict(wit, wrong=wrong[:6], expected="closure of the edges"))
    # (b) hierarchy graph
    try:
        from pddl_plus_parser.models import create_type_hierarchy_graph
        import networkx as nx
        g = create_type_hierarchy_graph(dom.types)
        bad = []
        for a in tn:
            for b in tn:
                if a == b or a not in g or b not in g:
                    continue
                reach = nx.has_path(g, b, a)
                ctx.count("compared")
                ctx.count("compared:graph")
                if reach != closure(par, a, b):
                    bad.append((a, b, reach))
        if bad:
            ctx.violation("hierarchy-graph-differs-from-closure", dict(wit, wrong=bad[:6]))
    except BaseException as e:
        ctx.violation("hierarchy-graph-raises", dict(wit, observed=lib.exc_name(e)))
    if missing or not deep:
        return
    # (c) accept / reject of facts, fluents, constant arguments
    objects = {f"o-{t}": t for t in par}
    bad = []
    for a in par:
        for b in tn:
            exp = closure(par, a, b)
            a0 = list(par)[0]
            for kind, init in (("fact", [[f"needs-{b}", f"o-{a}"]]), ("fluent", [["=", [f"lvl-{b}", f"o-{a}"], "1"]]),
                               # the checked argument comes after an object that occurs twice (positions must not shift)
                               ("fact", [[f"pair-{b}", f"o-{a0}", f"o-{a0}", f"o-{a}"]]),
                               ("fluent", [["=", [f"w-{b}", f"o-{a0}", f"o-{a0}", f"o-{a}"], "1"]])):
                try:
                    lib.parse_problem_text(sx.plain(problem_ast(objects, init)), dom)
                    acc = True
                except BaseException:
                    acc = False
                ctx.count("compared")
                ctx.count("compared:" + kind)
                if acc != exp:
                    bad.append((kind, a, b, "accepted" if acc else "rejected"))
    if bad:
        ctx.violation("problem-typecheck-differs-from-closure", dict(wit, wrong=bad[:6]))
    # constants as arguments: one constant type per rendering (rotating)
    ctype = rng.choice(list(par))
    try:
        domc = lib.parse_domain_text(sx.plain(build_domain(par, items, const_type=ctype)))
        badc = []
        for b in tn:
            try:
                lib.parse_problem_text(sx.plain(problem_ast(objects, [[f"needs-{b}", "kc"]])), domc)
                acc = True
            except BaseException:
                acc = False
            ctx.count("compared")
            ctx.count("compared:constant-arg")
            if acc != closure(par, ctype, b):
                badc.append((ctype, b, "accepted" if acc else "rejected"))
        if badc:
            ctx.violation("constant-typecheck-differs-from-closure", dict(wit, wrong=badc))
    except BaseException as e:
        ctx.violation("domain-with-constant-rejected", dict(wit, observed=lib.exc_name(e)))
    constants_only_universe(ctx, rng, par, tn, items, wit)
    # (d) quantifier ranges: forall effect and forall precondition
    try:
        pr = lib.parse_problem_text(sx.plain(problem_ast(objects, [["tok"]])), dom)
    except BaseException as e:
        ctx.violation("plain-problem-rejected", dict(wit, observed=lib.exc_name(e)))
        return
    s0 = lib.init_state(pr)
    for t in tn:
        exp = {f"o-{a}" for a in par if closure(par, a, t)}
        try:
            op = lib.make_operator(dom, f"mark-{t}", [], pr.objects)
            nxt = op.apply(s0)
            atoms, _ = lib.read_state(nxt)
            got = {a[1] for a in atoms if a[0] == "marked"}
            ctx.count("compared")
            ctx.count("compared:forall-effect")
            if got != exp:
                ctx.violation("forall-effect-range-differs-from-subtype-closure",
                              dict(wit, quantified_type=t, expected=sorted(exp), observed=sorted(got)))
        except BaseException as e:
            ctx.count("compared")
            ctx.violation("forall-effect-raises", dict(wit, quantified_type=t, observed=lib.exc_name(e)))
        # precondition: marked exactly the range -> true ; drop one -> false ; everything but an outsider -> true
        probes = [(exp, True)]
        for o in sorted(exp):
            probes.append((exp - {o}, False))
        outsiders = set(objects) - exp
        if outsiders:
            probes.append((set(objects) - {sorted(outsiders)[0]}, True))
        for marked, want in probes:
            init = [["tok"]] + [["marked", o] for o in sorted(marked)]
            try:
                prp = lib.parse_problem_text(sx.plain(problem_ast(objects, init)), dom)
                op = lib.make_operator(dom, f"chk-{t}", [], prp.objects)
                got = op.is_applicable(lib.init_state(prp))
            except BaseException as e:
                got = lib.exc_name(e)
            ctx.count("compared")
            ctx.count("compared:forall-pre")
            if got != want:
                ctx.violation("forall-precondition-range-differs-from-subtype-closure",
                              dict(wit, quantified_type=t, marked=sorted(marked), expected=want, observed=got))
                break


def constants_only_universe(ctx, rng, par, tn, items, wit):
    """a problem without objects: the universe is the domain's constants.  forall conditions and effects range over
    the constant exactly when its type is a subtype of the quantified type (an empty range is a vacuous truth)"""
    ctype = rng.choice(list(par))
    try:
        domc = lib.parse_domain_text(sx.plain(build_domain(par, items, const_type=ctype)))
    except BaseException:
        return
    for t in rng.sample(tn, min(3, len(tn))):
        in_range = closure(par, ctype, t)
        for marked in (False, True):
            init = [["tok"]] + ([["marked", "kc"]] if marked else [])
            want = True if not in_range else marked
            try:
                prp = lib.parse_problem_text(sx.plain(problem_ast({}, init)), domc)
                got = lib.make_operator(domc, f"chk-{t}", [], prp.objects).is_applicable(lib.init_state(prp))
            except BaseException as e:
                got = lib.exc_name(e)
            ctx.count("compared")
            ctx.count("compared:forall-pre")
            ctx.count("compared:constants-only-universe")
            if got != want:
                ctx.violation("forall-precondition-range-differs-from-subtype-closure[universe-of-constants-only]",
                              dict(wit, quantified_type=t, constant_type=ctype, constant_marked=marked, expected=want, observed=got))
                return


def random_forest(rng):
    n = rng.randint(5, 8)
    names = [f"t{i}" for i in range(n)]
    par = {}
    depth = {}
    for nm in names:
        cands = ["object"] + [p for p in par if depth[p] < 3 and sum(1 for c in par if par[c] == p) < 4]
        p = rng.choice(cands)
        par[nm] = p
        depth[nm] = 0 if p == "object" else depth[p] + 1
    # shuffle names so that the index order carries no information
    perm = names[:]
    rng.shuffle(perm)
    ren = dict(zip(names, perm))
    return {ren[c]: (ren[p] if p != "object" else "object") for c, p in par.items()}


def run(ctx):
    lib.assert_repo()
    rng = ctx.rng("c06")
    thorough = ctx.tier == "thorough"
    idx = 0
    for n in (1, 2, 3, 4):
        for par in forests(n):
            idx += 1
            if idx % ctx.nshards != ctx.shard:
                continue
            if not thorough and rng.random() > (1.0 if n <= 2 else 0.25):
                continue
            if not ctx.next_case():
                continue
            ctx.count("cases")
            ctx.count("exhaustive_blocks")
            rs = renderings(par, rng, 400 if thorough else 12)
            for k, (items, tags) in enumerate(rs):
                check_rendering(ctx, par, items, tags, rng, deep=(k < (6 if thorough else 2)))
            if idx % 37 == 0 and rs:
                ctx.sample({"forest": par, "types_section": " ".join(rs[0][0]), "tags": sorted(rs[0][1])})
    for i in range(40 if thorough else 6):
        if not ctx.next_case():
            continue
        ctx.count("cases")
        par = random_forest(rng)
        rs = renderings(par, rng, 20)
        for k, (items, tags) in enumerate(rs):
            check_rendering(ctx, par, items, tags | {"random-forest"}, rng, deep=(k < 2))
        if i == 0 and rs:
            ctx.sample({"forest": par, "types_section": " ".join(rs[0][0]), "tags": sorted(rs[0][1])})

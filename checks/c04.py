"""C04 - a plan is turned into the trajectory that the transition function dictates.

Monitor over the history returned by TrajectoryExporter.parse_plan (and its exported text):
one triplet per plan line in order, first pre-state = problem init, chaining, every post-state =
reference successor of the observed pre-state (or = pre-state when the step is inapplicable and
inapplicable actions are not allowed), direct apply of an inapplicable step raises."""
import os
from pathlib import Path

from fractions import Fraction
from vlib import sx, lib, model, gen, env, selftest, probe

RULE = ("plans of 1-40 steps as random walks steered by the reference model (valid and invalid steps at every position incl. "
        "first and last, both values of allow_invalid_actions, upper-case / extra-blank plan lines, file and list input) over "
        "generated worlds with numeric, conditional and universal effects, several problems per domain with different object "
        "universes, half of the plans exported by an exporter that already served other problems; plus the shipped (domain, problem, plan) triples; a "
        "case = one (domain, problem, plan, flag); distinct by texts + plan; non-trivial when the plan has >= 1 valid and >= 1 "
        "invalid step (generated) or >= 10 steps (shipped)")
DECISIVE = ["compared:step"]
DECISIVE_EACH = ["compared:step", "compared:chain", "compared:export", "compared:refusal", "plans_exported_by_a_reused_exporter"]
ASSUMPTIONS = ["refpddl.successor / holds as in C02, C03", "plans never contain steps whose model evaluation leaves C03's quantifier"]
SHARDS = {"quick": 16, "thorough": 16}


def render_line(rng, an, call):
    s = f"({an} {' '.join(call)})" if call else f"({an})"
    r = rng.random()
    if r < 0.2:
        s = s.upper()
    elif r < 0.35:
        s = s.replace(" ", "   ").replace("(", "( ").replace(")", " )")
    elif r < 0.45 and not call:
        s = f"({an} )"
    return s


def check_history(ctx, wm, dom_m, init_state, plan, triplets, allow, dom, objs, wit, exporter_cls=None):
    """the oracle over one returned history.  plan: list of (action, call)."""
    ok = True
    ctx.count("compared:length")
    if len(triplets) != len(plan):
        ctx.violation("history:number-of-steps-differs-from-plan-lines", dict(wit, plan_lines=len(plan), steps=len(triplets)))
        return False
    prev_post = None
    for i, (t, (an, call)) in enumerate(zip(triplets, plan)):
        try:
            pre = lib.read_state(t.previous_state)
            post = lib.read_state(t.next_state)
            optxt = sx.read(str(t.operator))
        except BaseException as e:
            txt = ""
            try:
                txt = t.previous_state.serialize() + t.next_state.serialize()
            except BaseException:
                pass
            if i and ("inf" in txt or "nan" in txt):
                # with allow_invalid_actions the library (rightly) applies steps the walk treated as refused, so the
                # history can leave the range the walk keeps (|v| <= 2^20): repeated squaring overflowed the floats.
                # Not a verdict on the property; the rest of this history is not judged.
                ctx.count("history_left_exact_float_range")
                return "left-range" if ok else False
            ctx.violation("history:unreadable-step", dict(wit, step=i, observed=lib.exc_name(e)))
            return False
        if any(abs(v) > 2 ** 40 or v.denominator > 2 ** 60 for v in list(pre[1].values()) + list(post[1].values())):
            ctx.count("history_left_exact_float_range")
            return "left-range" if ok else False
        ctx.count("compared:step")
        if optxt != [an] + list(call):
            ctx.violation("history:operator-differs-from-plan-line", dict(wit, step=i, expected=[an] + list(call), observed=optxt))
            ok = False
        ctx.count("compared:chain")
        want_pre = init_state if i == 0 else prev_post
        if probe.state_diff(want_pre, pre):
            ctx.violation("history:first-pre-state-is-not-the-initial-state" if i == 0 else "history:pre-state-differs-from-previous-post-state",
                          dict(wit, step=i, diff=probe.state_diff(want_pre, pre)))
            return False
        prev_post = post
        act = dom_m.actions[an]
        try:
            succ = model.successor(wm, act, call, pre)
            b_ = model.binding(act, call)
            if any(0 < m < Fraction(1, 1000) for m in model.cmp_margins(wm, act.pre, pre, b_) + model.cmp_margins(wm, act.eff, pre, b_)):
                ctx.count("skipped_comparison_within_tolerance_band")
                continue
        except (model.Outside, model.Inconsistent):
            ctx.count("skipped_outside_quantifier")
            continue
        if succ is not None:
            ctx.count("steps:valid")
            d = probe.state_diff(succ, post)
            if d:
                ctx.violation("history:post-state-is-not-the-successor", dict(wit, step=i, action=[an] + list(call), pre=model.show_state(pre),
                                                                              expected=model.show_state(succ), observed=model.show_state(post), diff=d))
                return False
        else:
            ctx.count("steps:invalid")
            if not allow:
                d = probe.state_diff(pre, post)
                if d:
                    ctx.violation("history:inapplicable-step-changed-the-state", dict(wit, step=i, action=[an] + list(call),
                                                                                     pre=model.show_state(pre), observed=model.show_state(post), diff=d))
                    return False
            # direct application must be refused unless explicitly allowed
            ctx.count("compared:refusal")
            try:
                s = lib.StateFactory(dom, dom_m.name, wm.objects).state(pre, fresh=True)
                lib.make_operator(dom, an, call, objs).apply(s)
                ctx.violation("refusal:direct-apply-of-inapplicable-action-did-not-raise", dict(wit, step=i, action=[an] + list(call), pre=model.show_state(pre)))
                ok = False
            except BaseException:
                pass
    return ok


def check_export(ctx, triplets, wit, exporter):
    try:
        lines = exporter.export(triplets)
        tree = sx.read("".join(lines))
    except BaseException as e:
        ctx.count("compared:export")
        ctx.violation("export:raises-or-unreadable", dict(wit, observed=lib.exc_name(e)))
        return
    ctx.count("compared:export")
    bad = None
    if len(tree) != 2 * len(triplets) + 1:
        bad = f"{len(tree)} items for {len(triplets)} steps"
    else:
        try:
            if tree[0][0] != ":init":
                bad = "first item is not (:init ...)"
            if probe.state_diff(lib.read_state(triplets[0].previous_state), model.read_state_ast(tree[0])):
                bad = "initial state text differs from the first pre-state"
            for i, t in enumerate(triplets):
                op, st = tree[2 * i + 1], tree[2 * i + 2]
                if op[0] != "operator:" or op[1] != sx.read(str(t.operator)):
                    bad = f"item {2 * i + 1} is not the operator of step {i}"
                    break
                if st[0] != ":state" or probe.state_diff(lib.read_state(t.next_state), model.read_state_ast(st)):
                    bad = f"item {2 * i + 2} is not the post-state of step {i}"
                    break
        except BaseException as e:
            bad = "unreadable: " + lib.exc_name(e)
    if bad:
        ctx.violation("export:text-is-not-the-alternation-of-the-history", dict(wit, problem_with_text=bad, text="".join(lines)[:1500]))


def run(ctx):
    lib.assert_repo()
    from pddl_plus_parser.exporters import TrajectoryExporter
    rng = ctx.rng("c04")
    thorough = ctx.tier == "thorough"
    n_worlds = 40 if thorough else 8
    for wi in range(n_worlds):
        w = gen.gen_plan_world(rng)
        if not w.actions:
            continue
        dtext = w.domain_text()
        try:
            dom = lib.parse_domain_text(dtext)
        except BaseException:
            ctx.count("refused:domain")
            continue
        dom_m = model.RefDomain.from_text(dtext)
        w_full = w
        exporters = {}
        for pi in range(8 if thorough else 3):
            if not ctx.next_case():
                continue
            ctx.count("cases")
            # the problems of one domain do not share their object universe: some lack objects the others have
            w = w_full
            if pi and rng.random() < 0.6 and len(w_full.objects) > 2:
                import copy
                w = copy.copy(w_full)
                drop = set(rng.sample(sorted(w_full.objects), rng.randint(1, max(1, len(w_full.objects) // 3))))
                w.objects = {o: t for o, t in w_full.objects.items() if o not in drop}
                ctx.count("problems_with_a_smaller_object_universe")
            wm = model.World(dom_m, w.objects)
            st0 = gen.random_state(rng, w)
            ptext = sx.plain(w.problem_ast(st0, rng=rng))
            try:
                prob = lib.parse_problem_text(ptext, dom)
            except BaseException:
                ctx.count("refused:problem")
                continue
            steps = gen.steered_walk(rng, wm, dom_m, st0, rng.choice([1, 2, 5, 12, 40]) if thorough else rng.choice([1, 3, 8, 20]),
                                     p_invalid=rng.choice([0.0, 0.3, 0.5]))
            if not steps:
                ctx.count("no_walk")
                continue
            plan = [(an, call) for an, call, _, _, _ in steps]
            lines = [render_line(rng, an, call) for an, call in plan]
            allow = rng.random() < 0.5
            via_file = rng.random() < 0.5
            wit = {"domain": dtext, "problem": ptext, "plan": lines, "allow_invalid_actions": allow, "input": "file" if via_file else "list"}
            # one exporter serves many problems of its domain (it is constructed per domain): half of the plans are
            # exported by an exporter that has already exported plans of other problems
            if rng.random() < 0.5 and allow in exporters:
                exporter = exporters[allow]
                ctx.count("plans_exported_by_a_reused_exporter")
                wit["exporter"] = "reused after other problems of the domain"
            else:
                exporter = exporters[allow] = TrajectoryExporter(dom, allow_invalid_actions=allow)
            try:
                if via_file:
                    p = env.write_tmp("\n".join(lines) + ("\n" if rng.random() < 0.7 else ""), suffix=".solution")
                    trip = exporter.parse_plan(prob, plan_path=Path(p))
                else:
                    trip = exporter.parse_plan(prob, action_sequence=lines)
            except BaseException as e:
                ctx.count("compared:step")
                ctx.violation("history:parse_plan-raises", dict(wit, observed=lib.exc_name(e)))
                continue
            ctx.feat({"allow" if allow else "strict", "file" if via_file else "list"})
            if any(s[2] for s in steps) and any(not s[2] for s in steps):
                ctx.nontrivial([dtext, ptext, lines, allow])
            if check_history(ctx, wm, dom_m, st0, plan, trip, allow, dom, prob.objects, wit) is True:
                check_export(ctx, trip, wit, exporter)
            if wi == 0 and pi == 0:
                ctx.sample({"plan": lines, "allow": allow, "steps_valid": sum(1 for s in steps if s[2]), "steps_invalid": sum(1 for s in steps if not s[2])})
    shipped(ctx, rng, TrajectoryExporter)


SHIPPED_EXTRA = [
    ("exporters_tests/depot_numeric.pddl", "exporters_tests/pfile2.pddl", "exporters_tests/depot_numeric_faulty.solution"),
    ("exporters_tests/minecraft_domain.pddl", "exporters_tests/minecraft_problem.pddl", "exporters_tests/minecraft_pfile0.solution"),
]


def shipped(ctx, rng, TrajectoryExporter):
    rp = os.path.join(env.repo_path(), "tests")
    triples = selftest.SHIPPED_PLANS + SHIPPED_EXTRA
    for j, (d, p, s) in enumerate(triples):
        if j % ctx.nshards != ctx.shard:
            continue
        for allow in (False, True):
            if not ctx.next_case():
                continue
            ctx.count("cases")
            dp, pp, sp = (os.path.join(rp, x) for x in (d, p, s))
            try:
                dom_m = model.RefDomain.from_text(open(dp).read())
                prob_m = model.RefProblem.from_text(open(pp).read())
                plan = [(t[0], t[1:]) for t in selftest.read_plan(sp)]
                wm = model.World(dom_m, prob_m.objects, constants_in_range=True)
            except Exception:
                ctx.count("shipped_outside_model")
                continue
            try:
                dom = lib.DomainParser(Path(dp)).parse_domain()
                prob = lib.ProblemParser(Path(pp), dom).parse_problem()
                exporter = TrajectoryExporter(dom, allow_invalid_actions=allow)
                trip = exporter.parse_plan(prob, plan_path=Path(sp))
            except BaseException as e:
                ctx.violation("history:parse_plan-raises[shipped]", {"files": [d, p, s], "observed": lib.exc_name(e)})
                continue
            wit = {"files": [d, p, s], "allow_invalid_actions": allow}
            ctx.count("shipped_plans")
            if len(plan) >= 10:
                ctx.nontrivial([d, p, s, allow])
            if check_history(ctx, wm, dom_m, prob_m.state(), plan, trip, allow, dom, prob.objects, wit):
                check_export(ctx, trip, wit, exporter)

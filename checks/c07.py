"""C07 - queries and transitions are pure: inputs and earlier results are never modified.

Monitors (vlib.monitor, installed on the real classes):
  purity  - digests of every live object (domains, schemas, problems, all states handed in or
            returned so far, module globals, a fresh Domain) unchanged across every API call;
  journal - every call is recorded with its canonical result and replayed later in the same
            history: same result (or raises iff it raised before);
  fresh   - the same read-only calls executed in two different orders by two new interpreters
            (vlib.order_worker) must give the same answers: catches process-wide memos / registries
            whose polluted answer is stable inside one process and therefore invisible to the journal;
  threads - N threads run seeded call sequences on one shared domain with yield injection at
            statement boundaries (sys.monitoring); call by call they must produce what the same
            sequences produce sequentially.
"""
import os
import sys
import threading
import time

from vlib import sx, lib, model, gen, digest, monitor, env

RULE = ("random API histories of 30-200 calls (parse, ground, is_applicable, apply x {default, allow_inapplicable, "
        "skip_validation}, re-apply the same operator object to earlier and later states, serialize, copy, print, domain/"
        "problem/trajectory export, parse an unrelated typed and an untyped domain, combine agent domains) over generated "
        "worlds biased to forall effects/conditions and numeric effects; thread runs of 2-8 threads sharing a domain with "
        "injected yields; sets of 60-150 read-only calls (print simplified / plain, export, vocabulary, subtype relation, ground, "
        "applicability, apply, problem content) over three domains of one name - two sharing a vocabulary and the text of a numeric "
        "comparison, one with other declarations under the same names - and problems with different object universes, executed in "
        "two (thorough: three) orders by fresh interpreters, and likewise plan conversion (one converter per domain), single-agent and "
        "joint trajectories (one exporter per domain), combining two directories whose agent files have the same names, and planner "
        "logs rewritten on one path; a case = one history / one thread run / one order differential; distinct by world text + call sequence; non-trivial when "
        "the history re-applied an operator object after another call and replayed >= 5 journal entries (histories), or "
        ">= 20 injected switches fell inside library code (thread runs)")
DECISIVE = ["contract:purity", "replays_compared", "thread_calls_compared"]
DECISIVE_EACH = ["contract:purity", "replays_compared", "thread_calls_compared", "order_calls_compared"]
ASSUMPTIONS = ["digests are read-only walks over public attributes (vlib.digest)",
               "thread sequences avoid sympy-backed calls (printing with simplification, nested numeric conditions): races inside sympy's caches are not the library's",
               "thread exploration is sampling under the GIL; no claim about free-threaded CPython"]
SHARDS = {"quick": 16, "thorough": 16}

UNRELATED_TYPED = """(define (domain other) (:requirements :typing) (:types veh - object car - veh loc)
 (:predicates (at ?v - veh ?l - loc) (free ?l - loc))
 (:action drive :parameters (?v - car ?a - loc ?b - loc) :precondition (and (at ?v ?a) (free ?b))
  :effect (and (not (at ?v ?a)) (at ?v ?b))))"""
UNRELATED_UNTYPED = """(define (domain blocks) (:requirements :strips)
 (:predicates (on ?x ?y) (clear ?x) (holding ?x) (handempty))
 (:action pick :parameters (?x) :precondition (and (clear ?x) (handempty)) :effect (and (holding ?x) (not (handempty)) (not (clear ?x)))))"""


class Sink:
    def __init__(self, ctx):
        self.ctx = ctx

    def violation(self, mech, wit):
        self.ctx.violation(mech, wit)

    def count(self, key, n=1):
        self.ctx.count(key, n)


def approx_equal(a, b):
    """equality of canonical results up to the last bits of float values: several additive effects on one fluent are summed
    in the iteration order of an identity-hashed set, and float addition is not associative (a difference in the 15th
    digit is not a different result)"""
    if isinstance(a, float) and isinstance(b, float):
        return a == b or abs(a - b) <= 1e-12 * max(abs(a), abs(b))
    if isinstance(a, tuple) and isinstance(b, tuple):
        return len(a) == len(b) and all(approx_equal(x, y) for x, y in zip(a, b))
    return a == b


def canon_result(res):
    n = type(res).__name__
    if n == "State":
        return ("state", digest.d_state_value(res))
    if isinstance(res, bool) or res is None:
        return res
    if isinstance(res, str):
        try:
            return ("text", sx.tokens(res).__len__(), tuple(sorted(sx.tokens(res))))
        except Exception:
            return ("text?", res)
    if isinstance(res, list):
        return tuple(canon_result(x) for x in res)
    if n == "Domain":
        return digest.d_domain(res)
    if n == "Problem":
        return digest.d_problem(res)
    if n == "TrajectoryTriplet":
        return (canon_result(res.previous_state), str(res.operator), canon_result(res.next_state))
    return ("obj", n)


def make_world(rng, thread_safe=False):
    w = gen.gen_world(rng, n_objs=rng.randint(3, 4), max_arity=2)
    acts = []
    for i in range(rng.randint(3, 5)):
        params = gen.gen_params(rng, w)
        pre = gen.gen_formula(rng, w, params, depth=2, width=2, forall=True, nested_numeric=not thread_safe)
        eff = gen.gen_effect(rng, w, params, when=True, forall=True, numeric=True, n=rng.randint(1, 4))
        # bias: make sure forall effects / numeric effects are frequent
        if rng.random() < 0.5:
            extra = gen.gen_effect(rng, w, params, when=False, forall=True, numeric=False, n=2)
            eff = eff + [e for e in extra[1:] if e[0] == "forall"]
        if gen.statically_consistent(eff):
            acts.append((params, pre, eff))
    if not acts:
        acts.append((gen.gen_params(rng, w), ["and"], ["and"]))
    w.actions = [{"name": f"a{i}", "params": p, "pre": pre, "eff": eff} for i, (p, pre, eff) in enumerate(acts)]
    return w


def partial_state(rng, st):
    """sometimes leave fluents undefined (the library reads them as 0): purity and repeatability need no model"""
    if rng.random() < 0.4 and st[1]:
        fl = {k: v for k, v in st[1].items() if rng.random() < 0.5}
        return st[0], fl
    return st


class History:
    """one seeded sequence of API calls with journal + replays"""

    def __init__(self, ctx, rng, mon, w, text):
        self.ctx, self.rng, self.mon, self.w, self.text = ctx, rng, mon, w, text
        self.journal = []  # (label, thunk, canonical result | ('raised', type))
        self.log = []
        mon.current_history = self.log
        self.replays = 0
        self.reapplied = False

    def call(self, label, thunk, journal=True):
        self.log.append(label)
        try:
            res = thunk()
            out = canon_result(res)
        except BaseException as e:
            res, out = None, ("raised", type(e).__name__)
        self.ctx.count("api_calls")
        self.ctx.count("api:" + label.split("(")[0])
        # purity is also checked around the call itself, whatever it is (a property, __str__, a helper the method-level
        # wrappers of vlib.monitor do not know)
        self.mon.check_all(label.split("(")[0])
        if journal:
            self.journal.append((label, thunk, out))
        return res

    def replay_some(self, k=3):
        if not self.journal:
            return
        for (label, thunk, old) in self.rng.sample(self.journal, min(k, len(self.journal))):
            self.log.append("replay:" + label)
            try:
                new = canon_result(thunk())
            except BaseException as e:
                new = ("raised", type(e).__name__)
            self.ctx.count("replays_compared")
            self.replays += 1
            if not approx_equal(new, old):
                kind = "raise-vs-return" if (isinstance(new, tuple) and new[:1] == ("raised",)) != (isinstance(old, tuple) and old[:1] == ("raised",)) else "different-result"
                self.ctx.violation(f"replay:{kind}:{label.split('(')[0]}",
                                   {"call": label, "first": str(old)[:700], "again": str(new)[:700],
                                    "difference": digest.first_difference(old, new) if isinstance(old, tuple) and isinstance(new, tuple) else None,
                                    "history": self.log[-14:], "domain": self.text})


def run_history(ctx, rng, mon, n_calls):
    w = make_world(rng)
    text = w.domain_text()
    mon.forget_all()
    import pddl_plus_parser.models.pddl_domain as PD
    import pddl_plus_parser.models.pddl_type as PT
    mon.register(PD.DEFAULT_TYPES, "module-global#DEFAULT_TYPES")
    mon.register(PT.ObjectType, "module-global#ObjectType")
    h = History(ctx, rng, mon, w, text)
    try:
        dom = lib.parse_domain_text(text)
    except BaseException as e:
        ctx.count("refused:parse")
        return None
    fresh = lib.Domain()
    mon.register(fresh, "Domain#fresh")
    mon.register(dom, "Domain#parsed")
    dom_m = model.RefDomain.from_text(text)
    wm = model.World(dom_m, w.objects)
    st0 = partial_state(rng, gen.random_state(rng, w))
    try:
        from pathlib import Path as _P
        goal = ["and"] + [list(a) for a in rng.sample(gen.ground_atoms(w, with_constants=False), min(2, len(gen.ground_atoms(w, with_constants=False))))]
        problem_parser = lib.ProblemParser(_P(env.write_tmp(sx.plain(w.problem_ast(st0, goal=goal)), name=f"hist-problem-{rng.randrange(10**9)}.pddl")), dom)
        prob = problem_parser.parse_problem()
    except BaseException:
        ctx.count("refused:problem")
        return None
    mon.register(prob, "Problem#parsed")
    states = [lib.init_state(prob)]
    mon.register(states[0], "State#initial")
    ops = []
    other = []
    from pddl_plus_parser.exporters import DomainExporter, ProblemExporter, TrajectoryExporter
    kinds = ["new_op", "new_op", "is_applicable", "apply", "apply", "apply_flag", "reapply", "reapply", "serialize", "copy", "two_ops",
             "print", "effects", "export_domain", "export_problem", "trajectory", "parse_other", "new_state", "replay", "replay",
             "read_only_accessor", "parse_problem_again"]
    for step in range(n_calls):
        k = rng.choice(kinds)
        if k == "new_op" or not ops:
            an = rng.choice(list(dom.actions))
            calls = model.type_correct_calls(wm, dom_m.actions[an])
            if not calls:
                continue
            call = list(rng.choice(calls))
            op = lib.make_operator(dom, an, call, prob.objects)
            ops.append((op, an, call))
            h.call(f"ground({an} {' '.join(call)})", lambda op=op: op.ground(), journal=False)
            continue
        if k == "two_ops":
            # two live operators of ONE action with different arguments: ground A, query A, ground B, query A again
            an = rng.choice(list(dom.actions))
            calls = model.type_correct_calls(wm, dom_m.actions[an])
            if len(calls) >= 2:
                ca, cb = (list(c) for c in rng.sample(calls, 2))
                opa = lib.make_operator(dom, an, ca, prob.objects)
                ops.append((opa, an, ca))
                h.call(f"ground({an} {' '.join(ca)})", lambda o=opa: o.ground(), journal=False)
                for s_ in rng.sample(states, min(len(states), 3)):
                    h.call(f"is_applicable({an} {' '.join(ca)} @s{states.index(s_)})", lambda o=opa, s_=s_: o.is_applicable(s_))
                opb = lib.make_operator(dom, an, cb, prob.objects)
                ops.append((opb, an, cb))
                h.call(f"ground({an} {' '.join(cb)})", lambda o=opb: o.ground(), journal=False)
                h.call(f"is_applicable({an} {' '.join(cb)} @s0)", lambda o=opb: o.is_applicable(states[0]))
                h.replay_some(6)
            continue
        op, an, call = rng.choice(ops)
        s = rng.choice(states)
        si = states.index(s)
        if k == "is_applicable":
            h.call(f"is_applicable({an} {' '.join(call)} @s{si})", lambda op=op, s=s: op.is_applicable(s))
        elif k in ("apply", "apply_flag", "reapply"):
            flags = {}
            if k == "apply_flag":
                flags = rng.choice([{"allow_inapplicable_actions": True}, {"skip_validation": True},
                                    {"allow_inapplicable_actions": True, "skip_validation": True}])
            if k == "reapply":
                h.reapplied = True
            res = h.call(f"apply({an} {' '.join(call)} @s{si} {sorted(flags)})", lambda op=op, s=s, flags=flags: op.apply(s, **flags))
            if res is not None and len(states) < 14:
                states.append(res)
                mon.register(res, "State#returned")
        elif k == "parse_problem_again":
            # the same parser object asked again: an equal problem, and the one returned earlier keeps its value
            h.call("parse_problem(same parser again)", lambda: problem_parser.parse_problem())
        elif k == "read_only_accessor":
            which = rng.choice(["typed_action_call", "str(operator)", "str(action)", "hash(precondition)", "precondition == itself"])
            if which == "typed_action_call":
                h.call(f"typed_action_call({an} {' '.join(call)})", lambda op=op: op.typed_action_call)
            elif which == "str(operator)":
                h.call(f"str(operator {an} {' '.join(call)})", lambda op=op: str(op))
            elif which == "str(action)":
                h.call(f"str(action {an})", lambda a=dom.actions[an]: str(a))
            elif which == "hash(precondition)":
                h.call(f"hash(precondition {an})", lambda a=dom.actions[an]: hash(a.preconditions) is not None, journal=False)
            else:
                h.call(f"precondition == itself({an})", lambda a=dom.actions[an]: a.preconditions == a.preconditions)
        elif k == "serialize":
            h.call(f"serialize(s{si})", lambda s=s: s.serialize())
            h.call(f"typed_serialize(s{si})", lambda s=s: s.typed_serialize(), journal=False)
        elif k == "copy":
            c = h.call(f"copy(s{si})", lambda s=s: s.copy())
            if c is not None and len(states) < 14:
                states.append(c)
                mon.register(c, "State#copy")
        elif k == "print":
            a = dom.actions[an]
            simp = rng.random() < 0.3
            h.call(f"print({an}, simplify={simp})", lambda a=a, simp=simp: a.preconditions.print(should_simplify=simp))
        elif k == "effects":
            h.call(f"effects_to_pddl({an})", lambda a=dom.actions[an]: a.effects_to_pddl())
        elif k == "export_domain":
            h.call("extract_domain", lambda: DomainExporter().extract_domain(dom))
        elif k == "export_problem":
            h.call("extract_problem", lambda: ProblemExporter().extract_problem(prob))
        elif k == "trajectory":
            seq = []
            for _ in range(rng.randint(1, 4)):
                o2, an2, call2 = rng.choice(ops)
                seq.append(f"({an2} {' '.join(call2)})")
            allow = rng.random() < 0.5
            h.call(f"parse_plan({seq}, allow={allow})",
                   lambda seq=seq, allow=allow: TrajectoryExporter(dom, allow_invalid_actions=allow).parse_plan(prob, action_sequence=seq))
        elif k == "parse_other":
            which = rng.choice(["typed", "untyped", "same", "combine"])
            if which == "typed":
                d2 = h.call("parse(unrelated typed domain)", lambda: lib.parse_domain_text(UNRELATED_TYPED), journal=False)
            elif which == "untyped":
                d2 = h.call("parse(unrelated untyped domain)", lambda: lib.parse_domain_text(UNRELATED_UNTYPED), journal=False)
            elif which == "same":
                d2 = h.call("parse(same text again)", lambda: lib.parse_domain_text(text))
            else:
                d2 = h.call("locate_domains(agent files)", lambda: combine_some(rng, w, text), journal=False)
            if d2 is not None:
                other.append(d2)
                mon.register(d2, "Domain#other")
                f2 = lib.Domain()
                mon.register(f2, "Domain#fresh-after")
                # a Domain created now must look like the one created at the start
                ctx.count("fresh_domain_compared")
                if digest.d_domain(f2) != digest.d_domain(fresh):
                    ctx.violation("leak:fresh-Domain-differs-after-other-domain-was-parsed-or-combined",
                                  {"first_difference": digest.first_difference(digest.d_domain(fresh), digest.d_domain(f2)),
                                   "history": h.log[-10:]})
        elif k == "new_state":
            stn = partial_state(rng, gen.random_state(rng, w))
            try:
                pr2 = lib.parse_problem_text(sx.plain(w.problem_ast(stn)), dom)
                s2 = lib.init_state(pr2)
                if len(states) < 14:
                    states.append(s2)
                    mon.register(s2, "State#initial")
            except BaseException:
                pass
        elif k == "replay":
            h.replay_some(3)
    h.replay_some(8)
    return h


def combine_some(rng, w, text):
    """write 2 per-agent domain files (the same vocabulary, disjoint actions) and combine them"""
    from pathlib import Path
    from pddl_plus_parser.multi_agent import MultiAgentDomainsConverter
    d = os.path.join(env.scratch(), f"ma{rng.randrange(10**9)}")
    os.makedirs(d)
    acts = w.actions
    for i in range(2):
        w2 = gen.W()
        w2.__dict__.update({k: v for k, v in w.__dict__.items()})
        w2.actions = [a for j, a in enumerate(acts) if j % 2 == i]
        with open(os.path.join(d, f"domain-ag{i}.pddl"), "wt") as f:
            f.write(w2.domain_text())
    return MultiAgentDomainsConverter(Path(d)).locate_domains()


# ---- thread runs ------------------------------------------------------------------------------
def thread_sequences(rng, wm, dom_m, w, n_threads, n_calls):
    seqs = []
    for t in range(n_threads):
        seq = []
        for _ in range(n_calls):
            an = rng.choice(list(dom_m.actions))
            calls = model.type_correct_calls(wm, dom_m.actions[an])
            if not calls:
                continue
            seq.append((an, list(rng.choice(calls)), gen.random_state(rng, w), rng.choice(["is_applicable", "apply", "apply_allow"])))
        seqs.append(seq)
    return seqs


def exec_seq(dom, prob_objects, seq, states):
    out = []
    for (an, call, _, kind), s in zip(seq, states):
        try:
            op = lib.make_operator(dom, an, call, prob_objects)
            if kind == "is_applicable":
                out.append(op.is_applicable(s))
            else:
                r = op.apply(s, allow_inapplicable_actions=(kind == "apply_allow"))
                out.append(("state", digest.d_state_value(r)))
        except BaseException as e:
            out.append(("raised", type(e).__name__))
    return out


def run_threads(ctx, rng, n_threads, n_calls, p_yield):
    w = make_world(rng, thread_safe=True)
    text = w.domain_text()
    try:
        dom = lib.parse_domain_text(text)
    except BaseException:
        ctx.count("refused:parse")
        return
    dom_m = model.RefDomain.from_text(text)
    wm = model.World(dom_m, w.objects)
    seqs = thread_sequences(rng, wm, dom_m, w, n_threads, n_calls)
    sf = lib.StateFactory(dom, w.name, w.objects)
    objs = sf.objects_table()
    states = [[sf.state(st, fresh=True) for (_, _, st, _) in seq] for seq in seqs]
    before = digest.d_domain(dom)
    expected = [exec_seq(dom, objs, seq, sts) for seq, sts in zip(seqs, states)]
    if digest.d_domain(dom) != before:
        ctx.count("sequential_run_already_impure")  # reported by the purity monitor in the history part
    states = [[sf.state(st, fresh=True) for (_, _, st, _) in seq] for seq in seqs]
    # yield injection at statement boundaries inside the library's model files
    mon_ok = hasattr(sys, "monitoring")
    switches = {"n": 0, "inside": {}}
    yrng = __import__("random").Random(rng.randrange(2 ** 32))
    sig = []
    TOOL = 4
    if mon_ok:
        E = sys.monitoring.events
        root = os.path.join(env.repo_path(), "pddl_plus_parser", "models")

        def on_line(code, line):
            if not code.co_filename.startswith(root):
                return sys.monitoring.DISABLE
            if yrng.random() < p_yield:
                switches["n"] += 1
                fn = code.co_name
                switches["inside"][fn] = switches["inside"].get(fn, 0) + 1
                if len(sig) < 4000:
                    sig.append((threading.get_ident() % 97, fn))
                time.sleep(0)
            return None

        try:
            sys.monitoring.use_tool_id(TOOL, "verif-yield")
            sys.monitoring.register_callback(TOOL, E.LINE, on_line)
            sys.monitoring.set_events(TOOL, E.LINE)
        except Exception:
            mon_ok = False
    old_si = sys.getswitchinterval()
    sys.setswitchinterval(1e-6)
    results = [None] * n_threads
    barrier = threading.Barrier(n_threads)

    def worker(i):
        barrier.wait()
        results[i] = exec_seq(dom, objs, seqs[i], states[i])

    ths = [threading.Thread(target=worker, args=(i,)) for i in range(n_threads)]
    try:
        for t in ths:
            t.start()
        for t in ths:
            t.join(120)
    finally:
        sys.setswitchinterval(old_si)
        if mon_ok:
            sys.monitoring.set_events(TOOL, 0)
            sys.monitoring.register_callback(TOOL, sys.monitoring.events.LINE, None)
            sys.monitoring.free_tool_id(TOOL)
            sys.monitoring.restart_events()
    if any(t.is_alive() for t in ths):
        ctx.count("thread_run_watchdog")
        return
    ctx.count("thread_runs")
    ctx.count("injected_switches", switches["n"])
    for fn, n in switches["inside"].items():
        if fn in ("_apply_universal_effects", "ground", "apply", "_ground", "_ground_universal_condition", "ground_predicate",
                  "_validate_universal_precondition", "is_applicable"):
            ctx.count("switches_inside:" + fn, n)
    ctx.seen("interleaving_signatures", sig[:400])
    if switches["n"] >= 20:
        ctx.nontrivial(["threads", text, n_threads, sig[:50]])
    for i in range(n_threads):
        for j, (e, g) in enumerate(zip(expected[i], results[i] or [])):
            ctx.count("thread_calls_compared")
            if not approx_equal(e, g):
                an, call, st, kind = seqs[i][j]
                ctx.violation("threads:result-differs-from-sequential-run",
                              {"thread": i, "call_index": j, "call": f"{kind}({an} {' '.join(call)})", "sequential": str(e)[:500],
                               "concurrent": str(g)[:500], "threads": n_threads, "yield_probability": p_yield, "domain": text})
                break
    if digest.d_domain(dom) != before:
        ctx.violation("threads:shared-domain-modified", {"first_difference": digest.first_difference(before, digest.d_domain(dom)), "domain": text})


def paired_actions(rng, w):
    """two actions that share the text of one numeric comparison: in the first it has a sibling equality through which the
    simplifying printer eliminates a fluent, in the second it stands alone.  Printing one must not colour the other."""
    params = gen.gen_params(rng, w, n=rng.choice([1, 2]))
    t1 = gen.gen_fluent_term(rng, w, params, use_constants=0.0)
    t2 = gen.gen_fluent_term(rng, w, params, use_constants=0.0)
    if t1 is None or t2 is None or t1 == t2:
        return None
    ineq = [rng.choice(["<=", ">=", "<", ">"]), t1, str(rng.choice([1, 3, 5]))]
    eq = ["=", ["+", t1, t2], str(rng.choice([4, 10]))]
    with_eq = {"name": "pa", "params": params, "pre": ["and", eq, ineq], "eff": ["and"]}
    alone = {"name": "pb", "params": params, "pre": ["and", ineq, [">=", t2, "0"]], "eff": ["and"]}
    return with_eq, alone


def run_order_differential(ctx, rng, thorough):
    """fresh-process differential (vlib.order_worker): the same read-only calls, executed in two different orders by two
    new interpreters, must give the same answer call by call"""
    import copy
    import json
    import subprocess
    wa = make_world(rng)
    wb = copy.copy(wa)
    wb.actions = make_world(rng).actions and []  # same vocabulary, other actions (filled below)
    acts_b = []
    for i in range(rng.randint(1, 3)):
        params = gen.gen_params(rng, wa)
        pre = gen.gen_formula(rng, wa, params, depth=2, width=2)
        eff = gen.gen_effect(rng, wa, params, n=rng.randint(1, 3))
        if gen.statically_consistent(eff):
            acts_b.append({"name": f"b{i}", "params": params, "pre": pre, "eff": eff})
    wb.actions = acts_b
    pair = paired_actions(rng, wa)
    wa = copy.copy(wa)
    wa.actions = list(wa.actions)
    if pair:
        wa.actions.append(pair[0])
        wb.actions.append(pair[1])
        if rng.random() < 0.5:
            wa.actions.append(dict(pair[1], name="pc"))
        ctx.count("order_runs_with_paired_actions")
    wc = make_world(rng)  # another vocabulary under the same domain name and (mostly) the same type / predicate names
    worlds = {"A": wa, "B": wb, "C": wc}
    job = {"domains": {}, "problems": {}, "calls": {}}
    n = [0]

    def add(call):
        n[0] += 1
        job["calls"][f"c{n[0]}"] = call

    for dk, w in worlds.items():
        if not w.actions:
            continue
        text = w.domain_text()
        job["domains"][dk] = text
        try:
            dm = model.RefDomain.from_text(text)
        except model.ModelError:
            continue
        add(["vocabulary", dk])
        add(["subtypes", dk])
        add(["export-domain", dk])
        for a in w.actions:
            add(["print", dk, a["name"], True])
            add(["print", dk, a["name"], False])
            add(["str-action", dk, a["name"]])
        for j in range(2):
            w2 = w
            if j and len(w.objects) > 2:
                w2 = copy.copy(w)
                drop = set(rng.sample(sorted(w.objects), 1))
                w2.objects = {o: t for o, t in w.objects.items() if o not in drop}
            pk = f"{dk}{j}"
            st = gen.random_state(rng, w2)
            job["problems"][pk] = [dk, sx.plain(w2.problem_ast(st, rng=rng))]
            add(["problem-content", pk])
            add(["export-problem", pk])
            wm = model.World(dm, w2.objects)
            for a in rng.sample(w.actions, min(2, len(w.actions))):
                try:
                    calls = model.type_correct_calls(wm, dm.actions[a["name"]])
                except model.ModelError:
                    continue
                if not calls:
                    continue
                call = list(rng.choice(calls))
                add(["ground", pk, a["name"], call])
                add(["applicable", pk, a["name"], call])
                add(["apply", pk, a["name"], call])
    ids = sorted(job["calls"])
    rng.shuffle(ids)
    orders = [list(ids), list(reversed(ids))]
    if thorough:
        o3 = list(ids)
        rng.shuffle(o3)
        orders.append(o3)
    results = []
    for k, order in enumerate(orders):
        jp = env.write_tmp(json.dumps(dict(job, order=order)), suffix=".json")
        outp = jp + ".out"
        e = dict(os.environ, PYTHONPATH=env.HERE)
        e.setdefault("PYTHONHASHSEED", "0")
        try:
            r = subprocess.run([sys.executable, "-m", "vlib.order_worker", jp, outp], cwd=env.HERE, env=e, timeout=600,
                               stdout=subprocess.PIPE, stderr=subprocess.STDOUT, text=True)
            with open(outp) as f:
                results.append(json.load(f))
        except Exception as ex:
            ctx.count("order_worker_failed")
            ctx.notes["order_worker_error"] = (str(ex) + " " + (r.stdout[-300:] if "r" in dir() else ""))[:500]
            return
    base = results[0]
    for cid in ids:
        kind = job["calls"][cid][0]
        ctx.count("order_answers:" + ("raised" if str(base.get(cid)).startswith("raised:") else "returned") + ":" + kind)
        if str(base.get(cid)).startswith("raised:"):
            ctx.notes.setdefault("order_call_raising_example", {"call": job["calls"][cid], "answer": base.get(cid)})
    for k, res in enumerate(results[1:], 1):
        for cid in ids:
            ctx.count("order_calls_compared")
            if res.get(cid) != base.get(cid):
                call = job["calls"][cid]
                before = orders[k][:orders[k].index(cid)]
                ctx.violation(f"fresh-process:answer-depends-on-the-calls-made-before:{call[0]}",
                              {"call": call, "answer_in_order_1": str(base.get(cid))[:600], f"answer_in_order_{k + 1}": str(res.get(cid))[:600],
                               "calls_before_it_in_order_1": [job["calls"][c] for c in orders[0][:orders[0].index(cid)]][-12:],
                               f"calls_before_it_in_order_{k + 1}": [job["calls"][c] for c in before][-12:],
                               "domains": job["domains"], "problems": job["problems"]})
                return
    ctx.nontrivial(["order", job["domains"], orders[0]])


def run_order_differential_ma(ctx, rng, thorough):
    """the fresh-process differential over the multi-agent and exporter entry points: plan conversion (one converter per
    domain, as a caller would keep it), joint and single-agent trajectories, combining two directories whose agent files
    have the same names, planner logs rewritten on one path"""
    import json
    import subprocess
    from vlib import magen
    from checks import c15, c19
    w = magen.ma_world(rng)
    text = w.domain_text()
    try:
        dm = model.RefDomain.from_text(text)
    except model.ModelError:
        return
    wm = model.World(dm, w.objects)
    job = {"domains": {"M": text}, "problems": {}, "calls": {}}
    n = [0]

    def add(call):
        n[0] += 1
        job["calls"][f"c{n[0]}"] = call

    for j in range(2):
        st0 = magen.ma_initial_state(rng, w)
        pk = f"M{j}"
        job["problems"][pk] = ["M", sx.plain(w.problem_ast(st0))]
        seq = c15.gen_plan(rng, wm, dm, w, st0, rng.choice([5, 12]))
        if len(seq) >= 2:
            lines = ["(" + " ".join([an] + c) + ")" for an, c in seq]
            add(["convert-plan", pk, lines, list(w.agents), True])
            add(["convert-plan", pk, lines, list(w.agents), False])
            add(["single-trajectory", pk, lines, False])
            add(["single-trajectory", pk, lines[: max(2, len(lines) // 2)], True])
        st, jl = st0, []
        for _ in range(rng.choice([2, 4])):
            members = magen.random_joint(rng, wm, dm, w, st)
            if not members:
                break
            jl.append(magen.joint_line(w, members))
            st = magen.commuting(wm, dm, st, members)
        if jl:
            add(["joint-trajectory", pk, jl])
    # two directories, same file names, other content
    w2 = magen.ma_world(rng)
    for ww in (w, w2):
        files = {}
        for i in range(2):
            wi = gen.W()
            wi.__dict__.update(ww.__dict__)
            wi.actions = [a for k, a in enumerate(ww.actions) if k % 2 == i]
            files[f"domain-a{i}.pddl"] = wi.domain_text()
        add(["combine-dir", files])
    for layout in ("ff", "enhsp"):
        for _ in range(2):
            steps = c19.gen_plan(rng, rng.choice([0, 3, 12]))
            if layout == "ff":
                txt = c19.ff_log(rng, steps, set()) if rng.random() < 0.8 else "".join(c19.HEADER_BLOCKS[:2]) + "\n" + c19.NO_SOLUTION[0] + "\n"
            else:
                txt = "".join("(" + " ".join(t) + ")\n" for t in steps)
            add(["planner-log", f"planner-output.{layout}", txt, layout])
    ids = sorted(job["calls"])
    if len(ids) < 4:
        return
    rng.shuffle(ids)
    orders = [list(ids), list(reversed(ids))]
    results = []
    for order in orders:
        jp = env.write_tmp(json.dumps(dict(job, order=order)), suffix=".json")
        e = dict(os.environ, PYTHONPATH=env.HERE)
        e.setdefault("PYTHONHASHSEED", "0")
        try:
            r = subprocess.run([sys.executable, "-m", "vlib.order_worker", jp, jp + ".out"], cwd=env.HERE, env=e, timeout=600,
                               stdout=subprocess.PIPE, stderr=subprocess.STDOUT, text=True)
            with open(jp + ".out") as f:
                results.append(json.load(f))
        except Exception as ex:
            ctx.count("order_worker_failed")
            ctx.notes["order_worker_error_ma"] = str(ex)[:300]
            return
    for cid in ids:
        kind = job["calls"][cid][0]
        a, b_ = results[0].get(cid), results[1].get(cid)
        ctx.count("order_calls_compared")
        ctx.count("order_answers:" + ("raised" if str(a).startswith("raised:") else "returned") + ":" + kind)
        if a != b_:
            ctx.violation(f"fresh-process:answer-depends-on-the-calls-made-before:{kind}",
                          {"call": [str(x)[:400] for x in job["calls"][cid]], "answer_in_order_1": str(a)[:600], "answer_in_order_2": str(b_)[:600],
                           "calls_before_it_in_order_1": [job["calls"][c][0] for c in orders[0][:orders[0].index(cid)]],
                           "calls_before_it_in_order_2": [job["calls"][c][0] for c in orders[1][:orders[1].index(cid)]],
                           "domain": text})
            return
    ctx.nontrivial(["order-ma", text, orders[0]])


def run(ctx):
    lib.assert_repo()
    rng = ctx.rng("c07")
    thorough = ctx.tier == "thorough"
    mon = monitor.Monitor(Sink(ctx)).attach()
    try:
        n_hist = 190 if thorough else 10
        for i in range(n_hist):
            if ctx.over_budget():
                break
            if not ctx.next_case():
                continue
            ctx.count("cases")
            h = run_history(ctx, rng, mon, rng.randint(30, 200 if thorough else 90))
            if h is not None:
                if h.reapplied and h.replays >= 5:
                    ctx.nontrivial(["history", h.text, h.log])
                if i == 0:
                    ctx.sample({"kind": "history", "domain": h.text[:900], "calls": h.log[:40]})
    finally:
        mon.detach()
    # thread runs without the purity wrappers (their digests would serialise the threads)
    n_thr = 19 if thorough else 2
    for i in range(n_thr):
        if not ctx.next_case():
            continue
        ctx.count("cases")
        run_threads(ctx, rng, rng.randint(2, 8), rng.randint(10, 30), rng.choice([0.05, 0.1, 0.3]))
    for i in range(6 if thorough else 1):
        if not ctx.next_case():
            continue
        ctx.count("cases")
        run_order_differential(ctx, rng, thorough)
        ctx.count("cases")
        run_order_differential_ma(ctx, rng, thorough)
    if thorough and ctx.shard == 0:
        run_repo_tests_under_monitor(ctx)


def run_repo_tests_under_monitor(ctx):
    """the repository's own tests as a workload for the purity monitor (outcomes ignored)"""
    import subprocess
    import json
    rp = env.repo_path()
    plug = os.path.join(env.HERE, "vlib")
    for d in ("exporters_tests", "lisp_parsers_tests", "models_tests", "multi_agent_tests"):
        out = os.path.join(env.scratch(), f"pytest-{d}.json")
        e = dict(os.environ, PDDL_PLUS_PARSER_VERIF="1", VERIF_PYTEST_OUT=out,
                 PYTHONPATH=os.pathsep.join([rp, env.HERE]))
        try:
            import re
            mon_run = subprocess.run([sys.executable, "-m", "pytest", "-q", "-p", "no:cacheprovider", "-p", "vlib.pytest_plugin", "."],
                                     cwd=os.path.join(rp, "tests", d), env=e, timeout=900, stdout=subprocess.PIPE, stderr=subprocess.STDOUT, text=True)
            e0 = {k: v for k, v in e.items() if k != "PDDL_PLUS_PARSER_VERIF"}
            plain_run = subprocess.run([sys.executable, "-m", "pytest", "-q", "-p", "no:cacheprovider", "."],
                                       cwd=os.path.join(rp, "tests", d), env=e0, timeout=900, stdout=subprocess.PIPE, stderr=subprocess.STDOUT, text=True)
            summ = lambda t: sorted(re.findall(r"(\d+) (passed|failed|error)", t.strip().splitlines()[-1] if t.strip() else ""))
            ctx.notes.setdefault("repo_tests_outcomes", {})[d] = {"with_monitors": summ(mon_run.stdout), "without": summ(plain_run.stdout)}
            if summ(mon_run.stdout) != summ(plain_run.stdout):
                # the monitors must not change what the code under test does: a difference makes this workload worthless
                ctx.count("monitor_perturbs_repo_tests")
                ctx.violation("harness:monitors-change-the-outcome-of-the-repository-tests",
                              {"test_dir": d, "with_monitors": mon_run.stdout[-400:], "without": plain_run.stdout[-400:]})
                continue
            with open(out) as f:
                r = json.load(f)
        except Exception as ex:
            ctx.count("repo_tests_workload_failed")
            ctx.notes["repo_tests_error"] = str(ex)[:300]
            continue
        ctx.count("contract:purity", r.get("purity", 0))
        ctx.count("repo_tests_contract_evaluations", r.get("purity", 0))
        for v in r.get("violations", []):
            ctx.violation("repo-tests:" + v["mechanism"], dict(v["witness"], test_dir=d))

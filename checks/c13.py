"""C13 - simplified numeric conditions are valid PDDL and mean the same as the originals.

Monitor: the strings returned by simplify_complex_numeric_expression, simplify_inequality,
simplify_equality, NumericalExpressionTree.simplify_complex_numerical_pddl_expression and
Precondition.print(should_simplify=True, decimal_digits=d), judged by
 (1) form  - readable by the reference reader, only binary + - * /, comparison root with two
             operands, leaves are fluents of the input or numerals; accepted by the library's own
             reader + construct_expression_tree;
 (2) meaning - witness valuations under exact rational evaluation: a violation is a valuation at
             which original and output have different truth values *decisively*, i.e. for every
             choice of the output's numerals within the rounding allowance (interval evaluation);
             in the exact class (integer coefficients) the allowance is 0 and boundary points decide.
Any exception from the simplifier is a violation (the statement promises text)."""
import itertools
import os
from fractions import Fraction

from vlib import sx, lib, model

RULE = ("polynomial and rational numeric conditions up to degree 3 over <= 4 fluents (lifted and grounded names with dashes, "
        "underscores, digits, incl. pairs that collide when punctuation is deleted), coefficients integer / short decimal / "
        "k +- 10^-5, all comparison operators, 0-2 linear equalities usable for elimination, decimal digits 0..6; witness "
        "valuations: for every fluent in which lhs-rhs is affine the exact boundary point and points at +-1e-3, +-1, +-10 "
        "around it, plus grid points; for whole preconditions points on and off the solution manifold of the equalities, "
        "comparisons that elimination reduces to constant ones (implied or contradictory), and the same condition sets joined "
        "by `or` (no elimination or omission is sound there); a "
        "case = one condition (or precondition) x digits; distinct by input text + digits; non-trivial when at least one "
        "decisive comparison was made on each side of the boundary")
DECISIVE = ["compared:meaning"]
DECISIVE_EACH = ["compared:form", "compared:meaning", "compared:precondition", "compared:disjunction", "compared:same-inequalities-in-another-context"]
ASSUMPTIONS = ["exact rational evaluation is the specification; an output numeral may deviate from the true coefficient by up to 2 units of the last requested digit (allowance K=4 half-units)",
               "sympy's own simplifications are part of the system under test"]
SHARDS = {"quick": 16, "thorough": 16}
WATCHDOG_S = {"quick": 1500, "thorough": 7200}

K = 4
CMP = ["<=", ">=", "<", ">"]
# names: dashes, underscores, digits - and ordinary words that happen to mean something to a computer algebra system
LIFTED = ["(fuel ?a)", "(dist ?c1 ?c2)", "(cap-x ?a)", "(load_limit ?t1)", "(zoom2 ?a ?b)", "(total-cost )", "(limit ?a)", "(gamma )"]
GROUNDED = ["(fuel a1)", "(dist c1 c2)", "(cap-x t-1)", "(load_limit t_2)", "(f-a b)", "(f a-b)", "(total-cost )", "(x9 o1 o1)",
            "(max c1)", "(pi )", "(test t-1)", "(sum )", "(d e f)", "(i s)"]
GRID = [Fraction(x) for x in (-3, -1, 0, 1, 2, 5)] + [Fraction(-1, 2), Fraction(1, 4)]


# ---- expressions as nested lists (PDDL prefix), fluents as strings '(name args)' -----------------
def fluents_of(e, out=None):
    out = [] if out is None else out
    if isinstance(e, str):
        if e.startswith("(") and e not in out:
            out.append(e)
    else:
        for x in e[1:]:
            fluents_of(x, out)
    return out


def ev(e, v):
    if isinstance(e, str):
        return v[e] if e.startswith("(") else Fraction(e)
    a, b = ev(e[1], v), ev(e[2], v)
    if e[0] == "+":
        return a + b
    if e[0] == "-":
        return a - b
    if e[0] == "*":
        return a * b
    if b == 0:
        raise ZeroDivisionError
    return a / b


def math(e):
    if isinstance(e, str):
        return e
    return f"({math(e[1])} {e[0]} {math(e[2])})"


def pddl(e):
    if isinstance(e, str):
        return e
    return f"({e[0]} {pddl(e[1])} {pddl(e[2])})"


def truth(op, d):
    return {"<=": d <= 0, ">=": d >= 0, "<": d < 0, ">": d > 0, "=": d == 0}[op]


def all_int(e):
    if isinstance(e, str):
        return e.startswith("(") or Fraction(e).denominator == 1
    if e[0] == "/" and not (isinstance(e[2], str) and e[2].startswith("(")) and not fluents_of(e[2]):
        return False
    return all(all_int(x) for x in e[1:])


# ---- reading and interval evaluation of the output --------------------------------------------------
class FormError(Exception):
    pass


def parse_out(text, allowed):
    """output text -> tree with fluents folded back into '(name args)' strings"""
    try:
        t = sx.read(text)
    except sx.ReadError as e:
        raise FormError(f"unreadable: {e}")
    names = {sx.tokens(f)[1]: f for f in allowed}

    def fold(x, top=False):
        if isinstance(x, str):
            if not model.is_num(x):
                raise FormError(f"leaf '{x}' is neither a numeral nor a fluent")
            return x
        if not x:
            raise FormError("empty list")
        h = x[0]
        if h in names:
            cand = "(" + " ".join(x) + ")" if len(x) > 1 else f"({h} )"
            if cand not in allowed:
                raise FormError(f"fluent {cand} does not occur in the input")
            return cand
        if h in ("+", "-", "*", "/"):
            if len(x) != 3:
                raise FormError(f"operator {h} with {len(x) - 1} operands")
            return [h, fold(x[1]), fold(x[2])]
        raise FormError(f"node head '{h}' is not a binary arithmetic operator or an input fluent")

    return t, fold


def iv(e, v, h):
    """interval value of an output tree; None when undetermined (division by an interval containing 0)"""
    if isinstance(e, str):
        if e.startswith("("):
            return (v[e], v[e])
        c = Fraction(e)
        return (c - h, c + h)
    a, b = iv(e[1], v, h), iv(e[2], v, h)
    if a is None or b is None:
        return None
    if e[0] == "+":
        return (a[0] + b[0], a[1] + b[1])
    if e[0] == "-":
        return (a[0] - b[1], a[1] - b[0])
    if e[0] == "*":
        ps = [a[0] * b[0], a[0] * b[1], a[1] * b[0], a[1] * b[1]]
        return (min(ps), max(ps))
    if b[0] <= 0 <= b[1]:
        return None
    qs = [a[0] / b[0], a[0] / b[1], a[1] / b[0], a[1] / b[1]]
    return (min(qs), max(qs))


def tri(op, lo, hi):
    """definite truth of (op d 0) for d in [lo, hi]: True / False / None"""
    if op == "<=":
        return True if hi <= 0 else (False if lo > 0 else None)
    if op == ">=":
        return True if lo >= 0 else (False if hi < 0 else None)
    if op == "<":
        return True if hi < 0 else (False if lo >= 0 else None)
    if op == ">":
        return True if lo > 0 else (False if hi <= 0 else None)
    if op == "=":
        return True if lo == hi == 0 else (False if (lo > 0 or hi < 0) else None)
    raise FormError(f"root '{op}' is not a comparison")


def out_truth(cond, v, h, slack=0):
    """definite truth of the output condition for every choice of its numerals within +-h, with the difference of its
    sides additionally allowed to be off by `slack` (terms that were rounded away, normalisation by a constant)"""
    op, l, r = cond
    a, b = iv(l, v, h), iv(r, v, h)
    if a is None or b is None:
        return None
    return tri(op, a[0] - b[1] - slack, a[1] - b[0] + slack)


def read_condition(text, allowed):
    t, fold = parse_out(text, allowed)
    if not isinstance(t, list) or len(t) != 3 or t[0] not in CMP + ["="]:
        raise FormError(f"root is not a comparison with two operands: {str(t)[:80]}")
    return (t[0], fold(t[1]), fold(t[2]))


# ---- witness valuations -----------------------------------------------------------------------------------
def boundary_points(rng, dfun, fl, n_base=3):
    """dfun(v) = lhs - rhs exactly.  For every fluent in which dfun is affine (checked at 4 points, exactly): the
    root and its neighbourhood."""
    pts = []
    for _ in range(n_base):
        v0 = {f: rng.choice(GRID) for f in fl}
        for x in fl:
            try:
                ys = {}
                for t in (0, 1, 2, -1):
                    v = dict(v0)
                    v[x] = Fraction(t)
                    ys[t] = dfun(v)
            except ZeroDivisionError:
                continue
            a, b = ys[1] - ys[0], ys[0]
            if a == 0 or ys[2] != 2 * a + b or ys[-1] != -a + b:
                continue
            x0 = -b / a
            for delta in (0, Fraction(1, 1000), Fraction(-1, 1000), 1, -1, 10, -10, Fraction(1, 100000), Fraction(-1, 100000)):
                v = dict(v0)
                v[x] = x0 + delta
                pts.append((v, "boundary" if delta == 0 else "near"))
    for _ in range(6):
        pts.append(({f: rng.choice(GRID) for f in fl}, "grid"))
    return pts


# ---- generators ----------------------------------------------------------------------------------------------
def gen_coef(rng, kind):
    if kind == "int":
        return str(rng.choice([-7, -3, -1, 2, 3, 5, 12, 100]))
    if kind == "dec":
        return rng.choice(["0.5", "-1.5", "2.25", "0.01", "-0.19", "3.75", "12.5", "0.6"])
    k = rng.choice([1, 2, 3, -2, 5])
    return str(Fraction(k) + rng.choice([1, -1]) * Fraction(1, 100000)).replace("/", "/") if False else \
        f"{float(k + rng.choice([1, -1]) * 1e-5):.5f}"


def gen_term(rng, fl, kind, max_deg):
    deg = rng.randint(1, max_deg)
    fs = [rng.choice(fl) for _ in range(deg)]
    t = fs[0]
    for f in fs[1:]:
        t = ["*", t, f] if rng.random() < 0.7 else ["*", f, t]
    if rng.random() < 0.8:
        c = gen_coef(rng, kind)
        if rng.random() < 0.12:
            # a coefficient written as arithmetic on two numerals: (- 1 3), (* 2 3), (- 0 3), (+ 0.5 2)
            c = [rng.choice(["-", "+", "*"]), rng.choice(["0", "1", "2", c]), rng.choice(["3", "1", c])]
        t = ["*", t, c] if rng.random() < 0.5 else ["*", c, t]
    return t


def degree(e):
    p = expand_poly(e)
    return max((len(m) for m in p), default=0) if p is not None else 0


def gen_poly(rng, fl, kind, max_deg=3, nterms=None, rational=False):
    """total degree <= 3 (the property's quantifier); the numerator of a rational expression likewise"""
    for _ in range(20):
        e = _gen_poly(rng, fl, kind, max_deg, nterms, False)
        if degree(e) <= 3:
            break
    else:
        e = gen_term(rng, fl, kind, 1)
    if rational:
        r = rng.random()
        if r < 0.4:
            e = ["/", e, rng.choice(["2", "4", "3", "0.5"])]
        elif r < 0.8:
            e = ["/", e, rng.choice(fl)]
        else:
            e = ["+", e, ["/", "1", ["*", rng.choice(fl), rng.choice(fl)]]]
    return e


def _gen_poly(rng, fl, kind, max_deg=3, nterms=None, rational=False):
    n = nterms or rng.randint(1, 4)
    e = gen_term(rng, fl, kind, max_deg)
    for _ in range(n - 1):
        t = gen_term(rng, fl, kind, max_deg)
        r = rng.random()
        if r < 0.6:
            e = ["+", e, t]
        elif r < 0.85:
            e = ["-", e, t]
        else:
            e = ["*", ["+", e, gen_coef(rng, kind)], rng.choice(fl)] if max_deg >= 2 else ["+", t, e]
    if rng.random() < 0.4:
        e = [rng.choice(["+", "-"]), e, gen_coef(rng, kind)]
    if rational:
        r = rng.random()
        if r < 0.4:
            e = ["/", e, rng.choice(["2", "4", "3", "0.5"])]
        elif r < 0.8:
            e = ["/", e, rng.choice(fl)]
        else:
            e = ["+", e, ["/", "1", ["*", rng.choice(fl), rng.choice(fl)]]]
    return e


def expand_poly(e):
    """sparse polynomial {sorted tuple of fluents: Fraction}; None when e is not a polynomial (division by a fluent)"""
    if isinstance(e, str):
        return {(e,): Fraction(1)} if e.startswith("(") else {(): Fraction(e)}
    a, b = expand_poly(e[1]), expand_poly(e[2])
    if a is None or b is None:
        return None
    if e[0] in "+-":
        out = dict(a)
        for m, c in b.items():
            out[m] = out.get(m, 0) + (c if e[0] == "+" else -c)
        return out
    if e[0] == "*":
        out = {}
        for m1, c1 in a.items():
            for m2, c2 in b.items():
                m = tuple(sorted(m1 + m2))
                out[m] = out.get(m, 0) + c1 * c2
        return out
    if set(b) == {()} and b[()] != 0:
        return {m: c / b[()] for m, c in a.items()}
    return None


def monomial_mass(poly, fl, v):
    """sum of |monomial(v)| over the monomials of the original (the constant monomial counts 1): what a coefficient
    error of one unit can move the value by"""
    if poly is None:
        return (1 + sum(abs(v[f]) for f in fl)) ** 3
    tot = Fraction(1)
    for m in poly:
        x = Fraction(1)
        for f in m:
            x *= abs(v[f])
        tot += x
    return tot


def max_coef(*es):
    mx = Fraction(1)

    def go(e):
        nonlocal mx
        if isinstance(e, str):
            if not e.startswith("("):
                mx = max(mx, abs(Fraction(e)))
        else:
            for x in e[1:]:
                go(x)
    for e in es:
        go(e)
    return mx


def collision_groups(fl):
    """fluents whose texts become the same sympy symbol when the library deletes '( ) - ?' and blanks"""
    import re
    groups = {}
    for f in fl:
        groups.setdefault(re.sub(r"[\(\-\)\s\?]", "", f), []).append(f)
    return [g for g in groups.values() if len(g) > 1]


def merged(v, groups):
    v = dict(v)
    for g in groups:
        for f in g[1:]:
            if g[0] in v:
                v[f] = v[g[0]]
    return v


# ---- judging one simplified condition -----------------------------------------------------------------------
def judge_condition(ctx, rng, op, lhs, rhs, out_text, digits, exact, wit, fl, api):
    """form + meaning of one returned comparison"""
    ctx.count("compared:form")
    try:
        cond = read_condition(out_text, fl)
    except FormError as e:
        ctx.violation(f"form:{classify_form(str(e))}", dict(wit, output=out_text, problem=str(e)))
        return None
    # the library's own reader must accept it too
    try:
        from pddl_plus_parser.models import construct_expression_tree, PDDLFunction
        funcs = {}
        for f in fl:
            toks = sx.tokens(f)[1:-1]
            funcs[toks[0]] = PDDLFunction(name=toks[0], signature={f"?p{i}": None for i in range(len(toks) - 1)})
        construct_expression_tree(lib.PDDLTokenizer(pddl_str=out_text).parse(), funcs)
    except BaseException as e:
        ctx.violation("form:library-cannot-read-its-own-output", dict(wit, output=out_text, observed=lib.exc_name(e)))
        return None
    if api == "equality":
        exact = False  # simplify() may normalise an equation by a constant: coefficients need not stay integers
    h = Fraction(0) if exact else K * Fraction(1, 2) * Fraction(1, 10 ** digits)
    dfun = lambda v: ev(lhs, v) - ev(rhs, v)
    groups = collision_groups(fl)
    poly = expand_poly(["-", lhs, rhs])
    cmax = max_coef(lhs, rhs)

    def scan(dfun_, points, count=True):
        sides = set()
        for v, kind in points:
            try:
                d = dfun_(v)
            except ZeroDivisionError:
                continue
            want = truth(op, d)
            got = out_truth(cond, v, h, h * monomial_mass(poly, fl, v))
            if got is None:
                if count:
                    ctx.count("rounding_undecided")
                continue
            if count:
                ctx.count("compared:meaning")
                ctx.count("compared:meaning:" + kind)
            sides.add(want)
            if got is not want:
                return sides, (v, kind, d, want, got)
        return sides, None

    sides, bad = scan(dfun, boundary_points(rng, dfun, fl))
    if bad:
        v, kind, d, want, got = bad
        info = dict(wit, output=out_text, valuation={k: str(x) for k, x in v.items()}, original_lhs_minus_rhs=str(d),
                    original_truth=want, output_truth=got, allowance=str(h), point_kind=kind)
        if groups:
            # recorded finding: the colliding fluents are one symbol for the simplifier.  Attributed only if the output
            # is right on every witness valuation that gives the colliding fluents equal values.
            dm = lambda v_: dfun(merged(v_, groups))
            reps = [f for f in fl if not any(f in g[1:] for g in groups)]
            pts = [(merged(v_, groups), k_) for v_, k_ in boundary_points(rng, dm, reps)]
            _, bad2 = scan(dfun, pts, count=False)
            if bad2 is None:
                ctx.known_finding("KF-SIMPLIFIER-NAME-COLLISION", info)
                return False
        mech = "meaning:output-differs-at-a-witness-valuation"
        if kind == "boundary":
            mech += "[on-the-boundary]"
        ctx.violation(mech, info)
        return False
    return len(sides) == 2


def classify_form(msg):
    if "^" in msg or "head '^'" in msg:
        return "power-operator-in-output"
    if "operands" in msg:
        return "non-binary-operator"
    if "does not occur" in msg:
        return "fluent-not-in-input"
    if "neither a numeral" in msg:
        return "bad-leaf"
    if "unreadable" in msg:
        return "unreadable"
    return "other"


def run(ctx):
    lib.assert_repo()
    from pddl_plus_parser.models.numeric_symbolic_operations import (simplify_complex_numeric_expression, simplify_inequality,
                                                                    simplify_equality)
    rng = ctx.rng("c13")
    thorough = ctx.tier == "thorough"
    n = 1250 if thorough else 110
    for i in range(n):
        if not ctx.next_case():
            continue
        ctx.count("cases")
        pool = LIFTED if rng.random() < 0.5 else GROUNDED
        fl = rng.sample(pool, rng.randint(1, 4))
        if pool is GROUNDED and rng.random() < 0.25:
            fl = list(dict.fromkeys(fl + ["(f-a b)", "(f a-b)"]))[:4]
        kind = rng.choice(["int", "int", "dec", "near"])
        rational = rng.random() < 0.2
        digits = rng.choice([0, 1, 2, 2, 3, 4, 4, 5, 6])
        which = rng.choice(["inequality", "inequality", "equality", "expression", "tree-method", "precondition", "precondition"])
        feats = {f"coef:{kind}", f"digits:{digits}", "rational" if rational else "polynomial", "names:" + ("lifted" if pool is LIFTED else "grounded"),
                 "api:" + which}
        try:
            if which == "precondition" and rng.random() < 0.3:
                which = "disjunction"
                feats.add("api:disjunction")
                r = case_disjunction(ctx, rng, fl, kind, digits, feats)
            elif which == "precondition":
                r = case_precondition(ctx, rng, fl, kind, digits, feats)
            elif which == "expression":
                r = case_expression(ctx, rng, fl, kind, rational, digits, simplify_complex_numeric_expression)
            elif which == "equality":
                r = case_equality(ctx, rng, fl, kind, digits, simplify_equality)
            elif which == "tree-method":
                r = case_tree_method(ctx, rng, fl, kind, rational, digits)
            else:
                r = case_inequality(ctx, rng, fl, kind, rational, digits, simplify_inequality)
        except ZeroDivisionError:
            r = None
        ctx.feat(feats)
        if r:
            ctx.nontrivial([which, sorted(fl), kind, digits, i, ctx.shard])


def used(fl, *es):
    u = []
    for e in es:
        fluents_of(e, u)
    return [f for f in fl if f in u] or fl[:1]


def case_inequality(ctx, rng, fl, kind, rational, digits, simplify_inequality):
    op = rng.choice(CMP)
    lhs = gen_poly(rng, fl, kind, rational=rational)
    rhs = gen_coef(rng, kind) if rng.random() < 0.6 else gen_poly(rng, fl, kind, max_deg=1, nterms=1)
    text = f"({math(lhs)} {op} {math(rhs)})"
    ufl = used(fl, lhs, rhs)
    wit = {"api": "simplify_inequality", "input": text, "operator": op, "decimal_digits": digits}
    try:
        out = simplify_inequality(text, op, [], decimal_digits=digits)
    except BaseException as e:
        ctx.count("compared:form")
        ctx.violation("raises:" + exc_class(e), dict(wit, observed=lib.exc_name(e)))
        return None
    if ctx.case_index % 50 == 0:
        ctx.sample(dict(wit, output=out))
    return judge_condition(ctx, rng, op, lhs, rhs, out, digits, all_int(lhs) and all_int(rhs), wit, ufl, "inequality")


def case_tree_method(ctx, rng, fl, kind, rational, digits):
    """NumericalExpressionTree.simplify_complex_numerical_pddl_expression on a tree built by the library from PDDL text"""
    from pddl_plus_parser.models import construct_expression_tree, NumericalExpressionTree, PDDLFunction
    fl = [f for f in fl if "?" in f or f == "(total-cost )"] or ["(fuel ?a)"]
    op = rng.choice(CMP)
    lhs = gen_poly(rng, fl, kind, rational=rational)
    rhs = gen_coef(rng, kind)
    text = f"({op} {pddl(lhs)} {rhs})"
    funcs = {}
    for f in fl:
        toks = sx.tokens(f)[1:-1]
        funcs[toks[0]] = PDDLFunction(name=toks[0], signature={p: None for p in toks[1:]})
    wit = {"api": "NumericalExpressionTree.simplify_complex_numerical_pddl_expression", "input": text, "decimal_digits": digits}
    try:
        tree = NumericalExpressionTree(construct_expression_tree(lib.PDDLTokenizer(pddl_str=text).parse(), funcs))
        out = tree.simplify_complex_numerical_pddl_expression(decimal_digits=digits)
    except BaseException as e:
        ctx.count("compared:form")
        ctx.violation("raises:" + exc_class(e), dict(wit, observed=lib.exc_name(e)))
        return None
    return judge_condition(ctx, rng, op, lhs, rhs, out, digits, all_int(lhs) and all_int(rhs), wit, used(fl, lhs), "tree-method")


def case_equality(ctx, rng, fl, kind, digits, simplify_equality):
    lhs = gen_poly(rng, fl, kind, max_deg=rng.choice([1, 1, 2]))
    trivial = rng.random() < 0.15
    rhs = lhs if trivial else (gen_coef(rng, kind) if rng.random() < 0.5 else gen_poly(rng, fl, kind, max_deg=1, nterms=rng.randint(1, 2)))
    text = f"{math(lhs)} = {math(rhs)}"
    ufl = used(fl, lhs, rhs)
    wit = {"api": "simplify_equality", "input": text, "decimal_digits": digits}
    try:
        out = simplify_equality(text, decimal_digits=digits)
    except BaseException as e:
        ctx.count("compared:form")
        ctx.violation("raises:" + exc_class(e), dict(wit, observed=lib.exc_name(e)))
        return None
    dfun = lambda v: ev(lhs, v) - ev(rhs, v)
    if out is None:
        ctx.count("compared:meaning")
        for _ in range(12):
            v = {f: rng.choice(GRID) for f in ufl}
            if dfun(v) != 0:
                info = dict(wit, output=None, valuation={k: str(x) for k, x in v.items()})
                groups = collision_groups(ufl)
                if groups and all(dfun(merged({f: rng.choice(GRID) for f in ufl}, groups)) == 0 for _ in range(12)):
                    ctx.known_finding("KF-SIMPLIFIER-NAME-COLLISION", info)
                else:
                    ctx.violation("meaning:equality-dropped-although-not-an-identity", info)
                return None
        return None
    return judge_condition(ctx, rng, "=", lhs, rhs, out, digits, all_int(lhs) and all_int(rhs), wit, ufl, "equality")


def case_expression(ctx, rng, fl, kind, rational, digits, simplify_expr):
    e = gen_poly(rng, fl, kind, rational=rational)
    text = math(e)
    ufl = used(fl, e)
    wit = {"api": "simplify_complex_numeric_expression", "input": text, "decimal_digits": digits}
    try:
        out = simplify_expr(text, decimal_digits=digits)
    except BaseException as ex:
        ctx.count("compared:form")
        ctx.violation("raises:" + exc_class(ex), dict(wit, observed=lib.exc_name(ex)))
        return None
    ctx.count("compared:form")
    try:
        t, fold = parse_out(out, ufl)
        tree = fold(t)
    except FormError as ex:
        ctx.violation(f"form:{classify_form(str(ex))}", dict(wit, output=out, problem=str(ex)))
        return None
    h = Fraction(0) if all_int(e) else K * Fraction(1, 2) * Fraction(1, 10 ** digits)
    poly, cmax = expand_poly(e), max_coef(e)
    ok = False
    for _ in range(10):
        v = {f: rng.choice(GRID) for f in ufl}
        try:
            want = ev(e, v)
        except ZeroDivisionError:
            continue
        got = iv(tree, v, h)
        if got is None:
            ctx.count("rounding_undecided")
            continue
        slack = h * monomial_mass(poly, ufl, v)
        got = (got[0] - slack, got[1] + slack)
        ctx.count("compared:meaning")
        ok = True
        if not (got[0] <= want <= got[1]):
            info = dict(wit, output=out, valuation={k: str(x) for k, x in v.items()}, expected=str(want),
                        output_interval=[str(got[0]), str(got[1])])
            groups = collision_groups(ufl)
            if groups:
                clean = True
                for _ in range(12):
                    vm = merged({f: rng.choice(GRID) for f in ufl}, groups)
                    try:
                        wv = ev(e, vm)
                    except ZeroDivisionError:
                        continue
                    gi = iv(tree, vm, h)
                    sl = h * monomial_mass(poly, ufl, vm)
                    if gi is not None and not (gi[0] - sl <= wv <= gi[1] + sl):
                        clean = False
                if clean:
                    ctx.known_finding("KF-SIMPLIFIER-NAME-COLLISION", info)
                    return None
            ctx.violation("meaning:expression-value-differs", info)
            return None
    return ok


def exc_class(e):
    n = type(e).__name__
    if n == "KeyError":
        return "KeyError[sympy-node-without-pddl-mapping]"
    return n


# ---- whole preconditions -------------------------------------------------------------------------------------
NON_UNIT = [False]


def eq_text(rng, x, L, c):
    """one of several texts of the linear equality x + L = c (the shape decides whether and how the library uses it
    for elimination: sum or difference at the top, eliminated fluent first or second, compound right-hand side)"""
    neg = lambda e: ["*", "-1", e]
    shape = rng.choice(["x+L", "x+L", "L+x", "x-N", "N'-x", "x=c-L"])
    if shape == "L+x":
        # the library eliminates a fluent of the first operand: when that is L, it divides by L's coefficient and the
        # substituted coefficients are no longer integers - such a case is never in the exact class
        NON_UNIT[0] = True
    if shape == "x+L":
        return f"(= (+ {x} {pddl(L)}) {c})"
    if shape == "L+x":
        return f"(= (+ {pddl(L)} {x}) {c})"
    if shape == "x-N":
        return f"(= (- {x} {pddl(neg(L))}) {c})"
    if shape == "N'-x":
        return f"(= (- {pddl(neg(L))} {x}) {pddl(str(-Fraction(c)))})"
    return f"(= {x} (- {c} {pddl(L)}))"


def case_disjunction(ctx, rng, fl, kind, digits, feats):
    """a precondition whose numeric conditions are joined by `or` (directly, or as the only child of the top-level `and`):
    an equality may not be used to rewrite its sibling disjuncts and a disjunct that always holds may not be dropped"""
    fl = LIFTED[:]
    rng.shuffle(fl)
    fl = fl[:rng.randint(2, 4)]
    eqs, ineqs = [], []
    for _ in range(rng.choice([0, 1, 1, 2])):
        x = rng.choice(fl)
        others = [f for f in fl if f != x]
        if rng.random() < 0.15:
            eqs.append((x, ["*", "-1", x], "0"))           # x + (-1 * x) = 0: always holds
        else:
            L = gen_poly(rng, others, kind if kind != "near" else "dec", max_deg=1, nterms=rng.randint(1, 2))
            eqs.append((x, L, gen_coef(rng, "int")))
    for _ in range(rng.randint(1, 2) if eqs else 2):
        op = rng.choice(CMP)
        lhs = gen_poly(rng, fl, kind, max_deg=rng.choice([1, 1, 2]))
        rhs = gen_coef(rng, kind) if rng.random() < 0.65 else gen_poly(rng, fl, kind if kind != "near" else "dec", max_deg=1, nterms=1)
        ineqs.append((op, lhs, rhs))
    NON_UNIT[0] = False
    conds = [eq_text(rng, x, L, c) for x, L, c in eqs] + [f"({op} {pddl(l)} {pddl(r)})" for op, l, r in ineqs]
    rng.shuffle(conds)
    fdecl = []
    for f in LIFTED:
        toks = sx.tokens(f)[1:-1]
        fdecl.append("(" + " ".join([toks[0]] + [f"{p} - object" for p in toks[1:]]) + ")")
    params = sorted({p for f in LIFTED for p in sx.tokens(f)[1:-1][1:]})
    nested = rng.random() < 0.6
    body = "(or " + " ".join(conds) + ")"
    dtext = ("(define (domain simp) (:requirements :numeric-fluents) (:predicates (ok)) (:functions " + " ".join(fdecl) + ") "
             "(:action a :parameters (" + " ".join(f"{p} - object" for p in params) + ") :precondition " +
             (f"(and {body})" if nested else body) + " :effect (and (ok))))")
    wit = {"api": "Precondition.print(should_simplify=True)", "disjunction_of": conds, "decimal_digits": digits,
           "shape": "(and (or ...))" if nested else "(or ...)"}
    feats.add(f"disjunction:equalities:{len(eqs)}")
    try:
        dom = lib.parse_domain_text(dtext)
        out = dom.actions["a"].preconditions.print(should_simplify=True, decimal_digits=digits)
    except BaseException as e:
        ctx.count("compared:precondition")
        ctx.violation("raises:" + exc_class(e), dict(wit, observed=lib.exc_name(e)))
        return None
    ctx.count("compared:form")
    try:
        t = sx.read(out)
        while t[0] == "and" and len(t) == 2:
            t = t[1]
        if t[0] != "or":
            raise FormError("printed precondition is not the disjunction it was")
        got_conds = [read_condition(sx.plain(c), LIFTED) for c in t[1:]]
    except (FormError, sx.ReadError) as e:
        ctx.violation(f"form:{classify_form(str(e))}", dict(wit, output=out, problem=str(e)))
        return None
    exact = all(all_int(L) and all_int(c) for _, L, c in eqs) and all(all_int(l) and all_int(r) for _, l, r in ineqs) and not NON_UNIT[0]
    h = Fraction(0) if exact else K * Fraction(1, 2) * Fraction(1, 10 ** digits)
    allp = [expand_poly(["-", ["+", x, L], c]) for x, L, c in eqs] + [expand_poly(["-", l, r]) for _, l, r in ineqs]

    def orig_truth(v):
        return any(v[x] + ev(L, v) == Fraction(c) for x, L, c in eqs) or any(truth(op, ev(l, v) - ev(r, v)) for op, l, r in ineqs)

    def out_disj(v):
        slack = h * max(monomial_mass(p_, LIFTED, v) for p_ in allp)
        res = [out_truth(c, v, h, slack) for c in got_conds]
        if any(r is True for r in res):
            return True
        if all(r is False for r in res):
            return False
        return None

    pts = [({f: rng.choice(GRID) for f in LIFTED}, "grid") for _ in range(10)]
    for x, L, c in eqs:
        for _ in range(3):
            v = {f: rng.choice(GRID) for f in LIFTED}
            if L != ["*", "-1", x]:
                v[x] = Fraction(c) - ev(L, v)
            pts.append((v, "on-an-equality"))
    for op, l, r in ineqs:
        for v, kindp in boundary_points(rng, lambda v_, l=l, r=r: ev(l, v_) - ev(r, v_), fl, n_base=2)[:20]:
            pts.append(({**{f: Fraction(0) for f in LIFTED}, **v}, kindp))
    sides = set()
    for v, kindp in pts:
        want = orig_truth(v)
        got = out_disj(v)
        if got is None:
            if h > 0 and want and kindp == "on-an-equality":
                ctx.count("equality_true_up_to_rounding")
            else:
                ctx.count("rounding_undecided")
            continue
        ctx.count("compared:precondition")
        ctx.count("compared:meaning")
        ctx.count("compared:disjunction")
        sides.add(want)
        if got is not want:
            mech = "precondition:simplified-disjunction-differs" + ("[weaker-than-original]" if (got and not want) else "[disjunct-dropped-or-strengthened]")
            ctx.violation(mech, dict(wit, output=out, valuation={k: str(x) for k, x in v.items() if k in fl}, original_truth=want,
                                     output_truth=got, point_kind=kindp, allowance=str(h)))
            return None
    if ctx.case_index % 40 == 0:
        ctx.sample(dict(wit, output=out))
    return len(sides) == 2


def case_precondition(ctx, rng, fl, kind, digits, feats):
    fl = [f for f in LIFTED if True][:]
    rng.shuffle(fl)
    fl = fl[:rng.randint(2, 4)]
    n_eq = rng.choice([0, 1, 1, 2]) if len(fl) >= 3 else rng.choice([0, 1])
    elim = fl[:n_eq]
    free = fl[n_eq:]
    eqs = []
    for j, x in enumerate(elim):
        others = free + elim[:j]
        L = gen_poly(rng, others, kind, max_deg=1, nterms=rng.randint(1, 2))
        c = gen_coef(rng, "int") if rng.random() < 0.7 else "0"
        eqs.append((x, L, c))
    ineqs = []
    for _ in range(rng.randint(1, 3)):
        op = rng.choice(CMP)
        lhs = gen_poly(rng, fl, kind, max_deg=rng.choice([1, 2, 3]))
        rhs = gen_coef(rng, kind) if rng.random() < 0.65 else gen_poly(rng, fl, kind if kind != "near" else "dec", max_deg=1, nterms=rng.randint(1, 2))
        ineqs.append((op, lhs, rhs))
    if rng.random() < 0.3:
        # a comparison that elimination reduces to a constant one (k*(x+L) against k*c+delta, or 2f against f+f): it is
        # implied (may be omitted), or contradictory (must survive in some unsatisfiable form), depending on op and delta
        if eqs:
            x, L, c = rng.choice(eqs)
            k = rng.choice([1, 2, 3, -2])
            delta = rng.choice([0, 0, 0, 1, -1])
            lhs = ["+", x, L] if k == 1 else ["*", str(k), ["+", x, L]]
            rhs = str(Fraction(c) * k + delta)
        else:
            f = rng.choice(fl)
            lhs, rhs = ["*", "2", f], ["+", f, f]
        ineqs.append((rng.choice(CMP), lhs, rhs))
        feats.add("inequality-constant-after-elimination")
    feats.add(f"equalities:{n_eq}")
    r = judge_precondition(ctx, rng, fl, digits, eqs, ineqs, free, None)
    if r is not None and eqs and rng.random() < 0.5:
        # history: the same inequalities, printed again in a precondition WITHOUT the equalities.  What an inequality was
        # rewritten to under one set of sibling conditions must not leak into the printing of the same text elsewhere.
        ctx.count("compared:same-inequalities-in-another-context")
        r2 = judge_precondition(ctx, rng, fl, digits, [], ineqs, fl, "printed right after the same inequalities with sibling equalities")
        if r2 is None:
            return None
    return r


def judge_precondition(ctx, rng, fl, digits, eqs, ineqs, free, history):
    NON_UNIT[0] = False
    conds = [eq_text(rng, x, L, c) for x, L, c in eqs] + [f"({op} {pddl(l)} {pddl(r)})" for op, l, r in ineqs]
    rng.shuffle(conds)
    fdecl = []
    for f in LIFTED:
        toks = sx.tokens(f)[1:-1]
        fdecl.append("(" + " ".join([toks[0]] + [f"{p} - object" for p in toks[1:]]) + ")")
    params = sorted({p for f in LIFTED for p in sx.tokens(f)[1:-1][1:]})
    dtext = ("(define (domain simp) (:requirements :numeric-fluents) (:predicates (ok)) (:functions " + " ".join(fdecl) + ") "
             "(:action a :parameters (" + " ".join(f"{p} - object" for p in params) + ") :precondition (and " + " ".join(conds) + ") :effect (and (ok))))")
    wit = {"api": "Precondition.print(should_simplify=True)", "conditions": conds, "decimal_digits": digits}
    if history:
        wit["history"] = history
    try:
        dom = lib.parse_domain_text(dtext)
        out = dom.actions["a"].preconditions.print(should_simplify=True, decimal_digits=digits)
    except BaseException as e:
        ctx.count("compared:precondition")
        ctx.violation("raises:" + exc_class(e), dict(wit, observed=lib.exc_name(e)))
        return None
    ctx.count("compared:form")
    try:
        t = sx.read(out)
        if t[0] != "and":
            raise FormError("printed precondition is not a conjunction")
        got_conds = [read_condition(sx.plain(c), LIFTED) for c in t[1:]]
    except (FormError, sx.ReadError) as e:
        ctx.violation(f"form:{classify_form(str(e))}", dict(wit, output=out, problem=str(e)))
        return None
    exact = all(all_int(L) and all_int(c) for _, L, c in eqs) and all(all_int(l) and all_int(r) for _, l, r in ineqs) and not NON_UNIT[0]
    h = Fraction(0) if exact else K * Fraction(1, 2) * Fraction(1, 10 ** digits)

    def orig_truth(v):
        for x, L, c in eqs:
            if v[x] + ev(L, v) != Fraction(c):
                return False
        return all(truth(op, ev(l, v) - ev(r, v)) for op, l, r in ineqs)

    allp = []
    for x, L, c in eqs:
        allp.append(expand_poly(["-", ["+", x, L], c]))
    for op, l, r in ineqs:
        allp.append(expand_poly(["-", l, r]))
    cmax = max_coef(*([L for _, L, _ in eqs] + [l for _, l, _ in ineqs] + [r for _, _, r in ineqs]))

    def out_conj(v, on_manifold):
        # after substitution an output condition may combine several originals: use the total monomial mass
        slack = h * sum(monomial_mass(p_, LIFTED, v) for p_ in allp) * (1 + len(eqs))
        if eqs:
            # substitution creates monomials the originals do not have: fall back to the generic mass bound
            slack = max(slack, h * (1 + sum(abs(v[f]) for f in fl)) ** 3)
        # an output equality comes from one original equality alone (equalities are never rewritten through the others):
        # its difference may be off by the rounding of its own, linear, terms only
        slack_eq = h * (1 + sum(abs(v[f]) for f in fl))
        res = [out_truth(c, v, h, slack_eq if c[0] == "=" else slack) for c in got_conds]
        if any(r is False for r in res):
            return False
        if all(r is True for r in res):
            return True
        # under a rounding allowance an equality is never 'definitely true'.  On the solution manifold of the original
        # equalities it gets the benefit of the doubt (the inequalities decide); off the manifold the point is undecided.
        if on_manifold and h > 0 and all(r is True or (r is None and c[0] == "=") for r, c in zip(res, got_conds)):
            return "true-up-to-rounding"
        return None

    sides = set()
    pts = []
    for _ in range(14):
        v = {f: rng.choice(GRID) for f in LIFTED}
        for x, L, c in eqs:  # onto the manifold, in elimination order
            v[x] = Fraction(c) - ev(L, v)
        pts.append((dict(v), "on-manifold"))
        if eqs and _ < 4:
            # far from the origin, where a coefficient that lost decimals moves an equality visibly
            vb = {f: rng.choice(GRID) * 10000 for f in LIFTED}
            for x, L, c in eqs:
                vb[x] = Fraction(c) - ev(L, vb)
            pts.append((vb, "on-manifold-far"))
        if eqs:
            x = rng.choice(eqs)[0]
            v2 = dict(v)
            v2[x] = v2[x] + rng.choice([1, -1, 10, -100, 1000])
            pts.append((v2, "off-manifold"))
    # boundary constructions of each inequality, restricted to the manifold when a free fluent is affine in it
    for op, l, r in ineqs:
        def dman(vfree, l=l, r=r):
            v = dict(vfree)
            for x, L, c in eqs:
                v[x] = Fraction(c) - ev(L, v)
            return ev(l, v) - ev(r, v)
        for v, kindp in boundary_points(rng, dman, free, n_base=2)[:14]:
            v = {**{f: Fraction(0) for f in LIFTED}, **v}
            for x, L, c in eqs:
                v[x] = Fraction(c) - ev(L, v)
            pts.append((v, "on-manifold-" + kindp))
    for v, kindp in pts:
        want = orig_truth(v)
        got = out_conj(v, kindp.startswith("on-manifold"))
        if got is None:
            ctx.count("rounding_undecided")
            continue
        ctx.count("compared:precondition")
        ctx.count("compared:meaning")
        sides.add(want)
        got_b = True if got == "true-up-to-rounding" else got
        if got_b is not want:
            mech = "precondition:simplified-conjunction-differs" + ("[condition-dropped-or-weakened]" if (got_b and not want) else "[stronger-than-original]")
            ctx.violation(mech, dict(wit, output=out, valuation={k: str(x) for k, x in v.items() if k in fl}, original_truth=want,
                                     output_truth=got, point_kind=kindp, allowance=str(h)))
            return None
    if ctx.case_index % 40 == 0:
        ctx.sample(dict(wit, output=out))
    return len(sides) == 2

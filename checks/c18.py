"""C18 - renaming an action's parameters does not change what the action does.

Monitor: Action.change_signature(map) applied to one of two independently parsed copies of a domain;
the renamed schema must have the same number / order / types of parameters and the same behaviour
(applicability and successor on covering states for sampled calls) as the untouched copy and as the
reference model.  Any exception is a violation."""
import itertools

from vlib import sx, lib, model, gen, probe

RULE = ("actions of the supported grammar (incl. (in)equalities, nested or, numeric conditions and effects, when, forall-when, "
        "forall preconditions) x injective renamings: fresh names, every permutation of the existing names (<= 4 parameters: "
        "exhaustive), chains ?a->?b->?c, partial maps (unmentioned parameters keep their names), each also with the dict's keys "
        "listed in another order than the parameters; a case = (action, map); distinct by action text + map; non-trivial when the map's new "
        "names overlap the old ones")
DECISIVE = ["compared:signature", "compared:behaviour"]
DECISIVE_EACH = ["compared:signature", "compared:behaviour", "compared:overlapping-map"]
ASSUMPTIONS = ["the untouched copy's behaviour is C01-C03's business: probes on which it is itself unfaithful are skipped"]
SHARDS = {"quick": 16, "thorough": 16}


def maps_for(rng, params, thorough):
    names = [p for p, _ in params]
    out = []
    out.append(("fresh", {p: f"?param_{i}" for i, p in enumerate(names)}))
    out.append(("fresh-hostile", {p: f"?{p[1:]}{p[1:]}" for p in names}))  # old name is a prefix of the new one
    perms = list(itertools.permutations(names))
    if len(names) > 4 or not thorough:
        perms = rng.sample(perms, min(len(perms), 4))
    for perm in perms:
        if list(perm) != names:
            out.append(("permutation", dict(zip(names, perm))))
    if len(names) >= 2:
        # chain: ?a -> ?b -> ... -> fresh
        ch = {names[i]: names[i + 1] for i in range(len(names) - 1)}
        ch[names[-1]] = "?zz"
        out.append(("chain", ch))
        # quantified-variable name reused as a parameter name
        q = {names[0]: "?o"}
        q.update({p: p for p in names[1:]})
        out.append(("reuse-quantifier-name", q))
        # partial maps: only some parameters renamed (the others keep their names), incl. only the last one
        out.append(("partial-last", {names[-1]: "?last_new"}))
        sub = rng.sample(names, rng.randint(1, len(names) - 1))
        out.append(("partial", {p: f"?n_{i}" for i, p in enumerate(sub)}))
        # partial map onto a name freed by the same map: ?a -> ?b, ?b -> fresh, rest untouched
        if len(names) >= 3:
            out.append(("partial-overlap", {names[1]: "?fresh_b", names[0]: names[1]}))
    # a map is a set of pairs: the order in which the caller's dict lists them is not part of it.  Every map is
    # also offered with its keys in another insertion order (reversed / rotated / shuffled).
    more = []
    for kind, mp in out:
        items = list(mp.items())
        if len(items) < 2:
            continue
        alt = rng.choice([items[::-1], items[1:] + items[:1], rng.sample(items, len(items))])
        if alt != items:
            more.append((kind + "+keys-reordered", dict(alt)))
    return out + more


def lib_signature(a):
    return [(k, getattr(v, "name", str(v))) for k, v in a.signature.items()]


def run(ctx):
    lib.assert_repo()
    rng = ctx.rng("c18")
    thorough = ctx.tier == "thorough"
    for d in range(60 if thorough else 5):
        if ctx.over_budget():
            break
        w = gen.gen_world(rng, max_arity=2)
        acts = []
        for i in range(4):
            params = gen.gen_params(rng, w, n=rng.choice([1, 2, 2, 3, 3, 4]))
            pre = gen.gen_formula(rng, w, params, depth=rng.choice([1, 2]), width=3, nested_numeric=False)
            eff = gen.gen_effect(rng, w, params, n=rng.randint(1, 4))
            if rng.random() < 0.3:
                # mirrored effects: one predicate, one polarity, argument tuples that a swap of two parameters maps onto
                # each other - after the renaming they must still be two effects
                for pn, sig in w.preds.items():
                    if len(sig) == 2:
                        vs = [v for v, t in params if w.subtype(t, sig[0][1]) and w.subtype(t, sig[1][1])]
                        if len(vs) >= 2:
                            x, y = rng.sample(vs, 2)
                            lits = [[pn, x, y], [pn, y, x]]
                            if rng.random() < 0.4:
                                lits = [["not", l] for l in lits]
                            eff = eff + lits
                            break
            if "?o" in sx.tokens(sx.plain(pre)) + sx.tokens(sx.plain(eff)) and rng.random() < 0.3:
                # a parameter with the name of the quantified variable: inside the forall the name means the quantified
                # variable (shadowing), outside it the parameter.  Renaming the parameter must leave the inner one alone.
                old = params[0][0]
                ren = lambda t: [ren(x) for x in t] if isinstance(t, list) else ("?o" if t == old else t)
                params, pre, eff = [("?o", params[0][1])] + params[1:], ren(pre), ren(eff)
            if gen.statically_consistent(eff):
                acts.append({"name": f"a{i}", "params": params, "pre": pre, "eff": eff})
        if not acts:
            continue
        w.actions = acts
        text = w.domain_text()
        dm = model.RefDomain.from_text(text)
        try:
            ref = lib.parse_domain_text(text)
        except BaseException:
            ctx.count("refused:parse")
            continue
        p_ref = probe.Probe(ref, dm, w)
        for a in acts:
            an = a["name"]
            for kind, mp in maps_for(rng, a["params"], thorough):
                if kind.startswith("reuse-quantifier-name") and "?o" not in sx.plain(a["pre"]) + sx.plain(a["eff"]):
                    continue
                if not ctx.next_case():
                    continue
                ctx.count("cases")
                overlapping = bool(set(mp.values()) & set(mp.keys()) - {k for k, v in mp.items() if k == v})
                wit = {"domain": text, "action": an, "parameters": a["params"], "map": mp, "map_kind": kind,
                       "precondition": sx.plain(a["pre"]), "effect": sx.plain(a["eff"])}
                quantifies_o = "forall" in sx.tokens(sx.plain(a["pre"])) + sx.tokens(sx.plain(a["eff"]))
                if quantifies_o and any(v == "?o" and k != "?o" for k, v in mp.items()):
                    # another parameter would take the name of the quantified variable: capture, as below
                    ctx.count("skipped_capturing_map")
                    continue
                if kind.startswith("reuse-quantifier-name"):
                    # renaming a parameter to the name of a variable bound inside the body captures it: not an
                    # admissible renaming of the *action* (the property speaks of injective maps on parameters, and
                    # capture changes the formula) -> skipped
                    ctx.count("skipped_capturing_map")
                    continue
                try:
                    dom2 = lib.parse_domain_text(text)
                    dom2.actions[an].change_signature(dict(mp))
                except BaseException as e:
                    ctx.count("compared:signature")
                    ctx.violation("rename:change_signature-raises", dict(wit, observed=lib.exc_name(e)))
                    continue
                ctx.count("compared:signature")
                if overlapping:
                    ctx.count("compared:overlapping-map")
                    ctx.nontrivial([text, an, sorted(mp.items())])
                ctx.feat({"map:" + kind})
                want = [(mp.get(p, p), t) for p, t in a["params"]]
                got = lib_signature(dom2.actions[an])
                if got != want:
                    ctx.violation("rename:signature-differs", dict(wit, expected=want, observed=got))
                    continue
                # behaviour: renamed copy vs reference semantics of the source (and the untouched copy)
                p2 = probe.Probe(dom2, dm, w)
                bad = False
                for call, states in p_ref.cases(rng, an, n_calls=3 if thorough else 2, bits=5, max_states=12 if thorough else 8):
                    for st in states:
                        exp = p_ref.expected(an, call, st)
                        if exp[0] != "app":
                            continue
                        o_ref = p_ref.observe(an, call, st)
                        if o_ref[0] == "raised" or p_ref.compare(exp, o_ref):
                            ctx.count("original_unfaithful_or_refusing")
                            continue
                        o2 = p2.observe(an, call, st)
                        ctx.count("compared:behaviour")
                        if o2[0] == "raised":
                            ctx.violation("rename:renamed-action-raises-where-original-answers",
                                          dict(wit, call=list(call), state=model.show_state(st), observed=o2[1:]))
                            bad = True
                            break
                        dd = p2.compare(exp, o2)
                        if dd:
                            ctx.violation(f"rename:renamed-action-behaves-differently:{dd['kind']}",
                                          dict(wit, call=list(call), state=model.show_state(st), discrepancy=dd))
                            bad = True
                            break
                    if bad:
                        break
                if ctx.case_index % 101 == 0:
                    ctx.sample({"action": an, "parameters": a["params"], "map": mp, "precondition": sx.plain(a["pre"]), "effect": sx.plain(a["eff"])})

"""C19 - planner logs yield exactly the plan's steps, in order.

Monitor: MetricFFParser().get_solving_status(path) / .parse_plan(in, out) and
ENHSPParser.parse_plan_content(path) vs the generator's step list."""
import os
from pathlib import Path

from vlib import sx, lib, env

RULE = ("plans of 0-150 steps (1-, 2- and 3-digit step numbers) over names with letters, digits, '-' and '_', rendered in "
        "Metric-FF log layout (header / trailer blocks cut from the shipped log, shuffled and optionally omitted, blank lines, "
        "trailer lines made only of word characters right after the last step, with and without a final newline) and in ENHSP "
        "one-action-per-line layout; logs without a plan (no-solution markers, timeouts); 40% of the logs overwrite one fixed path per "
        "layout and are read again in the same process (stale solution files left in place); the shipped log itself; a case = one "
        "log; distinct by log text; non-trivial when the plan has >= 11 steps or a word-only trailer line follows the plan")
DECISIVE = ["compared:steps", "compared:status"]
DECISIVE_EACH = ["compared:steps", "compared:status", "compared:enhsp", "compared:plan-file", "logs_on_a_reused_path"]
ASSUMPTIONS = ["header and trailer text never contains '<digit>: ' (such a line would be indistinguishable from a step for any parser)"]
SHARDS = {"quick": 8, "thorough": 16}

HEADER_BLOCKS = [
    "\nff: parsing domain file\ndomain 'DEPOT' defined\n ... done.\nff: parsing problem file\nproblem 'DEPOTPROB7512' defined\n ... done.\n\n",
    "\nwarning: numeric precondition. turning cost-minimizing relaxed plans OFF.\n",
    "\nff: search configuration is Enforced Hill-Climbing, then A*epsilon with weight 5.\nMetric is ((1.00*[RF0](FUEL-COST)) - () + 0.00)\nCOST MINIMIZATION DONE (WITHOUT cost-minimizing relaxed plans).\n",
    "\nCueing down from goal distance:   18 into depth [1][2]\n                                  16            [1][2]\n                                   1            [1]\n                                   0            \n",
    "\nEnforced Hill-climbing failed !\nswitching to Best-first Search now.\n\nadvancing to goal distance:   12\n                              11\n",
]
TRAILER_BLOCKS = [
    "plan cost: 54.000000\n",
    "\ntime spent:    0.00 seconds instantiating 666 easy, 0 hard action templates\n               0.00 seconds reachability analysis, yielding 82 facts and 210 actions\n               0.00 seconds searching, evaluating 68 states, to a max depth of 3\n               0.00 seconds total time\n",
]
WORD_TRAILERS = ["DONE", "search finished", "plan found", "end-of-plan", "ok"]
FOUND = "ff: found legal plan as follows\n"
NO_SOLUTION = ["problem proven unsolvable.", "ff: goal can be simplified to FALSE. No plan will solve it",
               "all increasers applied yet goal not fulfilled"]
NAME_PARTS = ["drive", "LIFT", "Load-Truck", "move_to", "a1", "op-2b", "unload", "x", "fly_9", "PICK-UP"]
ARGS = ["truck0", "DEPOT0", "crate-1", "hoist_2", "l0", "ob-1", "b2", "p10", "a", "distributor1"]


def gen_plan(rng, n):
    steps = []
    for _ in range(n):
        name = rng.choice(NAME_PARTS)
        args = [rng.choice(ARGS) for _ in range(rng.choice([0, 1, 2, 2, 3, 4]))]
        steps.append([name] + args)
    return steps


def render_ff(rng, steps, case_mode):
    lines = []
    for i, s in enumerate(steps):
        toks = [t.upper() if case_mode == "upper" else (t if case_mode == "mixed" else t.lower()) for t in s]
        prefix = "step " if i == 0 else "     "
        sep = " " if rng.random() < 0.85 else "  "
        lines.append(f"{prefix}{i:4d}: {sep.join(toks)}")
    return "\n".join(lines)


def ff_log(rng, steps, feats):
    hdr = [b for b in HEADER_BLOCKS if rng.random() < 0.7]
    rng.shuffle(hdr)
    wrapped = rng.random() < 0.25
    if wrapped:
        # lines of a wrapper script around the planner's own output; they happen to look like "<digit>: words"
        hdr.insert(0, rng.choice(["attempt 1: running metric-ff\n", "run 3: planner started\n", "[worker 2: solving pfile7]\n"]))
        feats.add("wrapper-lines-around-the-planner-output")
    out = "".join(hdr) + "\n" + FOUND
    if rng.random() < 0.3:
        out += "\n"
        feats.add("blank-line-before-plan")
    body = render_ff(rng, steps, rng.choice(["upper", "upper", "mixed", "lower"]))
    out += body
    r = rng.random()
    if not steps:
        out += "\n"
    if r < 0.25 and steps:
        w = rng.choice(WORD_TRAILERS)
        out += "\n" + ("\n" if rng.random() < 0.4 else "") + w + "\n"
        feats.add("word-only-trailer-line")
    elif r < 0.35 and steps:
        feats.add("log-ends-with-last-step-without-newline")
        return out
    else:
        out += "\n"
    trl = [b for b in TRAILER_BLOCKS if rng.random() < 0.7]
    out += "".join(trl)
    if wrapped and trl:
        # only after the planner's own trailer: directly after the last step such a line could not be told from a step
        out += rng.choice(["exit status 0: success\n", "attempt 1: done\n"])
    if rng.random() < 0.2:
        out = out.rstrip("\n")
        feats.add("no-final-newline")
    return out


def norm_steps(lines):
    """library output ('(name args)\\n' strings) -> token lists"""
    out = []
    for ln in lines:
        t = ln.replace("(", " ( ").replace(")", " ) ").split()  # case preserving: lower-casing is part of the property
        if t and t[0] == "(" and t[-1] == ")":
            t = t[1:-1]
        out.append(t)
    return out


def run(ctx):
    lib.assert_repo()
    from pddl_plus_parser.exporters import MetricFFParser, ENHSPParser
    rng = ctx.rng("c19")
    thorough = ctx.tier == "thorough"
    n = 6000 if thorough else 300
    for i in range(n):
        if not ctx.next_case():
            continue
        ctx.count("cases")
        kind = rng.choice(["ff", "ff", "ff", "enhsp", "noplan", "ff-empty-plan"] if i % 9 == 0 else ["ff", "ff", "ff", "enhsp", "noplan"])
        nsteps = rng.choice([0, 1, 2, 9, 10, 11, 12, 37, 99, 100, 101, 150]) if rng.random() < 0.6 else rng.randint(0, 150)
        steps = gen_plan(rng, nsteps)
        want = [[t.lower() for t in s] for s in steps]
        feats = {f"digits:{len(str(max(nsteps - 1, 0)))}"}
        # a planner writes every run to the same output file: the log's path says nothing about its content.  Part of the
        # logs (with and without plans, both layouts) therefore overwrite one fixed path per layout and are read again.
        reuse = rng.random() < 0.4
        if reuse:
            feats.add("log-path-reused")
            ctx.count("logs_on_a_reused_path")
        if kind == "ff":
            log = ff_log(rng, steps, feats)
            if rng.random() < 0.12:
                log = log.replace("\n", "\r\n")
                feats.add("crlf")
            p = Path(env.write_tmp(log, suffix=".out", name="planner-output.out" if reuse else None))
            wit = {"log": log[:6000], "steps": nsteps, "features": sorted(feats)}
            try:
                status, acts = MetricFFParser().get_solving_status(p)
            except BaseException as e:
                ctx.count("compared:status")
                ctx.violation("ff:get_solving_status-raises", dict(wit, observed=lib.exc_name(e)))
                continue
            ctx.count("compared:status")
            ctx.feat(feats)
            if nsteps >= 11 or "word-only-trailer-line" in feats:
                ctx.nontrivial(log)
            if status != "ok":
                ctx.violation("ff:log-with-a-plan-not-classified-ok", dict(wit, observed=status))
                continue
            ctx.count("compared:steps")
            got = norm_steps(acts)
            if got != want:
                ctx.violation("ff:steps-differ" + classify(got, want, feats), dict(wit, expected_tail=want[-3:], observed_tail=got[-3:],
                                                                                 expected_len=len(want), observed_len=len(got)))
                continue
            # the written plan file
            outp = Path(env.write_tmp("", suffix=".solution", name="planner-output.solution" if reuse else None))
            if not reuse or nsteps == 0 or rng.random() < 0.5:
                # (an empty plan writes no file by design - "exports a plan if exists" - so nothing stale is left for it)
                os.unlink(outp)
            else:
                open(outp, "w").write("(stale-step left over)\n" * rng.randint(1, 200))
            try:
                MetricFFParser().parse_plan(p, outp)
                got2 = norm_steps(open(outp).read().splitlines()) if os.path.exists(outp) else []
            except BaseException as e:
                got2 = lib.exc_name(e)
            ctx.count("compared:plan-file")
            if got2 != want:
                ctx.violation("ff:written-plan-file-differs", dict(wit, observed=str(got2)[:500]))
            if i < 2:
                ctx.sample({"layout": "metric-ff", "log": log[:1200], "steps": nsteps})
        elif kind == "ff-empty-plan":
            # Metric-FF's own rendering of the plan with no steps (the goal already holds in the initial state)
            hdr = [b for b in HEADER_BLOCKS if rng.random() < 0.7]
            log = "".join(hdr) + "\nff: goal can be simplified to TRUE. The empty plan solves it\n\n"
            p = Path(env.write_tmp(log, suffix=".out", name="planner-output.out" if reuse else None))
            try:
                status, acts = MetricFFParser().get_solving_status(p)
            except BaseException as e:
                status, acts = lib.exc_name(e), None
            ctx.count("compared:status")
            ctx.count("compared:steps")
            ctx.feat({"ff:empty-plan-as-metric-ff-prints-it"})
            if status != "ok" or acts:
                ctx.violation("ff:log-with-the-empty-plan-not-classified-ok", {"log": log[:3000], "expected": ["ok", []], "observed": [status, acts]})
        elif kind == "noplan":
            hdr = [b for b in HEADER_BLOCKS if rng.random() < 0.7]
            marker = rng.choice(NO_SOLUTION + [None, None])
            log = "".join(hdr) + ("\n" + marker + "\n" if marker else "\nadvancing to goal distance:   7\n")
            p = Path(env.write_tmp(log, suffix=".out", name="planner-output.out" if reuse else None))
            try:
                status, acts = MetricFFParser().get_solving_status(p)
            except BaseException as e:
                status, acts = lib.exc_name(e), None
            ctx.count("compared:status")
            ctx.feat({"noplan:" + ("no-solution" if marker else "timeout")})
            if status != ("no-solution" if marker else "timeout") or acts:
                ctx.violation("ff:log-without-plan-misclassified", {"log": log[:3000], "expected": "no-solution" if marker else "timeout",
                                                                    "observed": [status, acts], "features": sorted(feats)})
        else:
            mode = rng.choice(["upper", "mixed", "lower"])
            lines = ["(" + " ".join(t.upper() if mode == "upper" else (t if mode == "mixed" else t.lower()) for t in s) + ")" for s in steps]
            text = "\n".join(lines) + ("\n" if lines and rng.random() < 0.8 else "")
            p = Path(env.write_tmp(text, suffix=".plan", name="planner-output.plan" if reuse else None))
            try:
                got = norm_steps(ENHSPParser.parse_plan_content(p))
            except BaseException as e:
                got = lib.exc_name(e)
            ctx.count("compared:enhsp")
            ctx.count("compared:steps")
            ctx.feat({"enhsp", f"digits:{len(str(max(nsteps - 1, 0)))}"})
            if got != want:
                ctx.violation("enhsp:steps-differ", {"features": sorted(feats), "plan_text": text[:3000], "expected_len": len(want), "observed": str(got)[-600:]})
    # the shipped log against its shipped solution
    if ctx.shard == 0:
        rp = os.path.join(env.repo_path(), "tests", "exporters_tests")
        try:
            status, acts = MetricFFParser().get_solving_status(Path(os.path.join(rp, "output.out")))
            want = [[t.lower() for t in st] for st in norm_steps(open(os.path.join(rp, "depot_numeric.solution")).read().splitlines())]
            ctx.count("compared:steps")
            ctx.count("shipped_log")
            if status != "ok" or norm_steps(acts) != want:
                ctx.violation("ff:shipped-log-differs-from-shipped-solution", {"status": status, "observed": norm_steps(acts)[:4]})
        except BaseException as e:
            ctx.violation("ff:shipped-log-raises", {"observed": lib.exc_name(e)})


def classify(got, want, feats):
    if len(got) == len(want) and got[:-1] == want[:-1] and got[-1][:len(want[-1])] == want[-1] and "word-only-trailer-line" in feats:
        return "[trailer-line-appended-to-last-step]"
    if got == want[:-1] and "log-ends-with-last-step-without-newline" in feats:
        return "[last-step-lost-when-log-ends-without-newline]"
    return ""

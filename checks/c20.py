"""C20 - grounding is substitution of the call's arguments for the parameters.

Monitor: iteration over op.grounded_preconditions, grounded_discrete_effects /
grounded_numeric_effects of every group in op.grounded_effects, str() (typed form) of grounded
literals and typed_action_call, vs refpddl substitution on the same source text."""
from vlib import sx, lib, model, gen, sched

RULE = ("actions of the C02/C03 grammars x type-correct calls (all of them up to a cap) incl. repeated objects, constants in "
        "argument positions and parameters of strict subtypes of the predicates' declared types; under injected iteration "
        "orders; a case = (action, call); distinct by action text + call; non-trivial when the call repeats an object or "
        "uses a constant, or the action has a constant argument or a parameter whose type is a strict subtype of the "
        "predicate's parameter type")
DECISIVE = ["compared:preconditions", "compared:effects", "compared:typed"]
DECISIVE_EACH = ["compared:stored-form", "compared:preconditions", "compared:effects", "compared:typed"]
ASSUMPTIONS = ["literals that mention a quantified variable are outside the statement and ignored",
               "numeric expressions are observed through to_pddl(), re-read independently, and a second time from the tree itself "
               "with every fluent leaf's argument list taken from PDDLFunction.state_representation (the form states use)"]
SHARDS = {"quick": 16, "thorough": 16}


def obs_literal(gp):
    return (bool(gp.is_positive), (gp.name,) + tuple(gp.grounded_objects))


def typed_of(gp):
    """[(object, type)] read from the typed text of a grounded literal"""
    t = sx.read(str(gp))
    if t[0] == "not":
        t = t[1]
    out = []
    i = 1
    while i < len(t):
        out.append((t[i], t[i + 2]))
        i += 3
    return t[0], out


def collapse_in(e, funcs):
    if isinstance(e, tuple):
        if e and e[0] in funcs:
            return (e[0],) + tuple(model.collapse_args(list(e[1:])))
        return tuple(collapse_in(x, funcs) for x in e)
    return e


def repeats_first_in(e, funcs):
    if isinstance(e, tuple):
        if e and e[0] in funcs:
            return (e[0],) + tuple(model.repeats_first(list(e[1:])))
        return tuple(repeats_first_in(x, funcs) for x in e)
    return e


def stored_form(tree):
    """a grounded numeric expression read straight from the library's tree: operators from the nodes, every fluent leaf
    with the argument list the library itself uses for it in states (PDDLFunction.state_representation, which expands
    `repeating_variables`) - a second channel next to to_pddl(), which prints the name-keyed signature only"""
    def go(node):
        kids = list(getattr(node, "children", ()) or ())
        v = node.value
        if not kids:
            if hasattr(v, "signature"):
                t = sx.read(v.state_representation)
                return [str(x) for x in t[1]]
            return repr(float(v))
        return [str(v)] + [go(k) for k in kids]
    return model.canon_expr(go(tree.root))


def model_groups(wm, act, b):
    """[(adds, dels, nums)] for the unconditional group and every top-level when"""
    def simple(effs):
        adds, dels, nums = set(), set(), set()
        for e in effs:
            if e[0] == "not":
                dels.add(tuple(model.subst(e[1], b)))
            elif e[0] in model.UPD:
                nums.add(model.canon_expr(model.subst(e, b)))
            elif e[0] in wm.dom.predicates:
                adds.add(tuple(model.subst(e, b)))
        return (frozenset(adds), frozenset(dels), frozenset(nums))

    eff = act.eff or ["and"]
    top = [e for e in eff[1:] if e[0] not in ("when", "forall")]
    groups = [simple(top)]
    for e in eff[1:]:
        if e[0] == "when":
            body = e[2][1:] if e[2][0] == "and" else [e[2]]
            groups.append(simple(body))
    return groups


def run_domain(ctx, rng, w, acts, thorough):
    w.actions = acts
    text = w.domain_text()
    dm = model.RefDomain.from_text(text)
    wm = model.World(dm, w.objects)
    try:
        dom = lib.parse_domain_text(text)
    except BaseException:
        ctx.count("refused:parse", len(acts))
        return
    sf = lib.StateFactory(dom, w.name, w.objects)
    objs = sf.objects_table()
    ptypes = {}
    injected = False
    for a in acts:
        an = a["name"]
        act = dm.actions[an]
        calls = model.type_correct_calls(wm, act)
        rng.shuffle(calls)
        calls.sort(key=lambda c: (len(set(c)) == len(c), not any(x in w.constants for x in c)))
        cap = 12 if thorough else 5
        for call in calls[:cap]:
            if not ctx.next_case():
                continue
            ctx.count("cases")
            b = model.binding(act, call)
            for order in ("natural", 1, 2) if thorough else ("natural", 1):
                try:
                    op = lib.make_operator(dom, an, call, objs)
                    if order != "natural":
                        if not injected:
                            sched.permute(dom)
                            injected = True
                        sched.set_salt(order)
                    op.ground()
                    if order != "natural":
                        sched.permute(op)
                    pre_items = list(op.grounded_preconditions)
                    groups = list(op.grounded_effects)
                except BaseException as e:
                    ctx.count("refused:ground")
                    ctx.notes.setdefault("refused_ground", {"error": lib.exc_name(e), "action": sx.plain(a["pre"]), "call": list(call)})
                    break
                finally:
                    sched.set_salt(0)
                wit = {"domain": text, "action": an, "call": list(call), "precondition": sx.plain(a["pre"]), "effect": sx.plain(a["eff"]),
                       "iteration_order": order}
                nontrivial = len(set(call)) < len(call) or any(x in w.constants for x in call)
                # ---- preconditions ---------------------------------------------------------
                exp_lits, exp_nums, _ = model.ground_literals(wm, act.pre, b)
                got_lits, got_nums, got_stored = set(), set(), set()
                typed_bad = None
                for _, operand in pre_items:
                    tn = type(operand).__name__
                    if tn == "GroundedPredicate":
                        got_lits.add(obs_literal(operand))
                        typed_bad = typed_bad or check_typed(wm, act, b, operand, w)
                    elif tn == "NumericalExpressionTree":
                        try:
                            e = model.canon_expr(sx.read(operand.to_pddl()))
                        except BaseException:
                            e = ("unprintable",)
                        if not mentions_var(e):
                            got_nums.add(e)
                            try:
                                got_stored.add(stored_form(operand))
                            except BaseException as ex:
                                got_stored.add(("unreadable", lib.exc_name(ex)))
                ctx.count("compared:preconditions")
                if got_lits != set(exp_lits):
                    ctx.violation("grounding:precondition-literals-differ-from-substitution",
                                  dict(wit, missing=sorted(map(str, set(exp_lits) - got_lits)), extra=sorted(map(str, got_lits - set(exp_lits)))))
                    break
                if got_nums != set(exp_nums):
                    emu = {collapse_in(e, wm.dom.functions) for e in exp_nums}
                    if got_nums == emu and emu != set(exp_nums):
                        ctx.known_finding("KF-REPEATED-ARGS", dict(wit, expected=sorted(map(str, exp_nums)), observed=sorted(map(str, got_nums))))
                    else:
                        ctx.violation("grounding:numeric-conditions-differ-from-substitution",
                                      dict(wit, expected=sorted(map(str, exp_nums)), observed=sorted(map(str, got_nums))))
                        break
                ctx.count("compared:stored-form")
                if got_stored != set(exp_nums):
                    emu = {repeats_first_in(e, wm.dom.functions) for e in exp_nums}
                    if got_stored == emu and emu != set(exp_nums):
                        ctx.known_finding("KF-REPEATED-ARGS", dict(wit, expected=sorted(map(str, exp_nums)), observed=sorted(map(str, got_stored)),
                                                                   channel="state_representation of the leaves"))
                    else:
                        ctx.violation("grounding:numeric-conditions-differ-from-substitution[argument-lists-as-stored]",
                                      dict(wit, expected=sorted(map(str, exp_nums)), observed=sorted(map(str, got_stored))))
                        break
                # ---- effects ---------------------------------------------------------------------
                exp_groups = model_groups(wm, act, b)
                stored_groups = []
                got_groups = []
                for g in groups:
                    adds = frozenset(obs_literal(x)[1] for x in g.grounded_discrete_effects if x.is_positive)
                    dels = frozenset(obs_literal(x)[1] for x in g.grounded_discrete_effects if not x.is_positive)
                    nums, nums_st = set(), set()
                    for t in g.grounded_numeric_effects:
                        try:
                            nums.add(model.canon_expr(sx.read(t.to_pddl())))
                        except BaseException:
                            nums.add(("unprintable",))
                        try:
                            nums_st.add(stored_form(t))
                        except BaseException as ex:
                            nums_st.add(("unreadable", lib.exc_name(ex)))
                    got_groups.append((adds, dels, frozenset(nums)))
                    stored_groups.append((adds, dels, frozenset(nums_st)))
                    for x in g.grounded_discrete_effects:
                        typed_bad = typed_bad or check_typed(wm, act, b, x, w)
                ctx.count("compared:effects")
                key = lambda gs: sorted(repr((sorted(a), sorted(d), sorted(map(repr, n)))) for a, d, n in gs)
                if key(got_groups) != key(exp_groups):
                    emu_groups = [(a_, d_, frozenset(collapse_in(e, wm.dom.functions) for e in n_)) for a_, d_, n_ in exp_groups]
                    if key(got_groups) == key(emu_groups):
                        ctx.known_finding("KF-REPEATED-ARGS", dict(wit, expected=key(exp_groups), observed=key(got_groups)))
                    else:
                        ctx.violation("grounding:effect-groups-differ-from-substitution", dict(wit, expected=key(exp_groups), observed=key(got_groups)))
                        break
                if key(stored_groups) != key(exp_groups):
                    emu_groups = [(a_, d_, frozenset(repeats_first_in(e, wm.dom.functions) for e in n_)) for a_, d_, n_ in exp_groups]
                    if key(stored_groups) == key(emu_groups):
                        ctx.known_finding("KF-REPEATED-ARGS", dict(wit, expected=key(exp_groups), observed=key(stored_groups),
                                                                   channel="state_representation of the leaves"))
                    else:
                        ctx.violation("grounding:effect-groups-differ-from-substitution[argument-lists-as-stored]",
                                      dict(wit, expected=key(exp_groups), observed=key(stored_groups)))
                        break
                # ---- typed forms ---------------------------------------------------------------
                ctx.count("compared:typed")
                if typed_bad:
                    ctx.violation("grounding:typed-form-of-literal-carries-wrong-type", dict(wit, problem=typed_bad))
                    break
                tb = check_typed_call(op, act, call, w, objs)
                if tb:
                    ctx.violation("grounding:typed-action-call-differs", dict(wit, problem=tb))
                    break
                if order == "natural":
                    feats = set()
                    if len(set(call)) < len(call):
                        feats.add("call:repeated-object")
                    if any(x in w.constants for x in call):
                        feats.add("call:constant")
                    if strict_subtype_param(wm, act):
                        feats.add("param:strict-subtype-of-predicate-type")
                        nontrivial = True
                    if has_constant_arg(act, w):
                        feats.add("literal:constant-argument")
                        nontrivial = True
                    ctx.feat(feats or {"plain"})
                    if nontrivial:
                        ctx.nontrivial([text, an, list(call)])
            if ctx.case_index % 211 == 0:
                ctx.sample({"action": an, "call": list(call), "precondition": sx.plain(a["pre"]), "effect": sx.plain(a["eff"])})


def mentions_var(e):
    if isinstance(e, tuple):
        return any(mentions_var(x) for x in e)
    return isinstance(e, str) and e.startswith("?")


def check_typed(wm, act, b, gp, w):
    """argument i of the typed form carries the type of the action parameter (or constant) substituted"""
    try:
        name, pairs = typed_of(gp)
    except BaseException as e:
        return f"typed text unreadable: {lib.exc_name(e)}"
    # which schema literal is this? find a literal of the schema with this name whose substitution gives these objects
    objs = tuple(o for o, _ in pairs)
    ptype = dict(act.params)
    for lit in schema_literals(act, wm):
        if lit[0] != name or len(lit) - 1 != len(objs):
            continue
        if tuple(model.subst(lit, b))[1:] != objs:
            continue
        want = []
        ok = True
        for arg in lit[1:]:
            if arg in ptype:
                want.append(ptype[arg])
            elif arg in w.constants:
                want.append(w.constants[arg])
            else:
                ok = False
        if ok and [t for _, t in pairs] == want:
            return None
        if ok:
            last = (lit, want)
    try:
        return f"literal {sx.plain(list(last[0]))} grounded as {str(gp)}: expected types {last[1]}"
    except UnboundLocalError:
        return None  # not a literal of the (non-quantified part of the) schema: judged by the set comparison


def schema_literals(act, wm):
    out = []

    def go(f, q):
        if not isinstance(f, list) or not f:
            return
        h = f[0]
        if h in ("forall", "exists"):
            return
        if h in wm.dom.predicates:
            out.append(f)
            return
        for x in f[1:]:
            go(x, q)

    go(act.pre or [], set())
    go(act.eff or [], set())
    return out


def check_typed_call(op, act, call, w, objs):
    try:
        t = sx.read(op.typed_action_call)
    except BaseException as e:
        return f"typed_action_call raises: {lib.exc_name(e)}"
    if t[0] != act.name:
        return f"name {t[0]}"
    got = []
    i = 1
    while i < len(t):
        got.append((t[i], t[i + 2]))
        i += 3
    if [o for o, _ in got] != list(call):
        return f"arguments {got} for call {list(call)}"
    allobj = dict(w.constants)
    allobj.update(w.objects)
    want_decl = [allobj[o] for o in call]
    want_param = [t_ for _, t_ in act.params]
    if [t_ for _, t_ in got] not in (want_decl, want_param):
        return f"types {got}: expected the objects' declared types {want_decl} or the parameters' types {want_param}"
    return None


def strict_subtype_param(wm, act):
    ptype = dict(act.params)
    for lit in schema_literals(act, wm):
        for arg, (_, t) in zip(lit[1:], wm.dom.predicates[lit[0]]):
            if arg in ptype and ptype[arg] != t:
                return True
    return False


def has_constant_arg(act, w):
    def go(f):
        if isinstance(f, list):
            return any(go(x) for x in f)
        return f in w.constants
    return go(act.pre or []) or go(act.eff or [])


def run(ctx):
    lib.assert_repo()
    rng = ctx.rng("c20")
    thorough = ctx.tier == "thorough"
    for d in range(60 if thorough else 6):
        if ctx.over_budget():
            break
        w = gen.gen_world(rng, max_arity=3 if rng.random() < 0.3 else 2)
        acts = []
        for i in range(5):
            params = gen.gen_params(rng, w)
            pre = gen.gen_formula(rng, w, params, depth=rng.choice([1, 2]), width=3, use_constants=0.3, nested_numeric=False)
            eff = gen.gen_effect(rng, w, params, n=rng.randint(1, 4), use_constants=0.3)
            acts.append({"name": f"a{i}", "params": params, "pre": pre, "eff": eff})
        run_domain(ctx, rng, w, acts, thorough)
    for k, orders in sched.OBSERVED.items():
        for o in orders:
            ctx.seen("orders:" + k, o)

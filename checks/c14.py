"""C14 - states behave as values: equality, copy and serialisation agree.

Monitor: State.__eq__, State.copy, State.serialize on states whose content (atom set, fluent ->
value) is known from construction.  Each state is built by several routes (problem parser with
shuffled :init, trajectory parser, copy, successor of a neighbour state)."""
import itertools
from fractions import Fraction

from vlib import sx, lib, model, digest

RULE = ("all pairs of states over a small universe (2 objects; p/1 q/2 z/0; f/1 h/2 incl. repeated arguments; values "
        "{absent, 0, 1, -1/2}) - a sample of the state list in quick, the whole list in thorough - each state built by >= 2 "
        "routes; plus random larger states with ternary fluents; a case = one ordered pair (s1, s2) or one copy/serialise probe; "
        "distinct by the two contents; non-trivial when the two states differ in exactly one fact or one fluent value (the "
        "hardest pairs to tell apart) or are equal but built by different routes")
DECISIVE = ["compared:eq", "compared:copy", "compared:serialize"]
DECISIVE_EACH = ["compared:eq", "compared:copy", "compared:serialize", "compared:eq:expected-equal", "compared:eq:expected-unequal", "compared:text-after-in-place-change", "compared:parsed-states-independent"]
EXHAUSTIVE = "all ordered pairs of the enumerated state list (1536 states in thorough)"
ASSUMPTIONS = ["content of a state is known from its construction (atom set, fluent -> value)"]
SHARDS = {"quick": 16, "thorough": 16}

DOMAIN = """(define (domain sv) (:requirements :typing :numeric-fluents)
 (:types t)
 (:predicates (p ?x - t) (q ?x - t ?y - t) (z))
 (:functions (f ?x - t) (h ?x - t ?y - t) (g3 ?x - t ?y - t ?w - t))
 (:action set-z :parameters () :precondition (and) :effect (and (z)))
 (:action clr-z :parameters () :precondition (and) :effect (and (not (z))))
 (:action set-p :parameters (?x - t) :precondition (and) :effect (and (p ?x)))
 (:action clr-p :parameters (?x - t) :precondition (and) :effect (and (not (p ?x))))
 (:action inc-f :parameters (?x - t) :precondition (and) :effect (and (increase (f ?x) 1)))
 (:action dec-h :parameters (?x - t ?y - t) :precondition (and) :effect (and (decrease (h ?x ?y) 0.5))))"""
OBJECTS = {"a": "t", "b": "t"}
ATOMS = [("p", "a"), ("q", "a", "b"), ("q", "b", "a"), ("q", "a", "a"), ("z",)]
FLUENTS = [(("f", "a"), [None, Fraction(0), Fraction(1), Fraction(-1, 2)]),
           (("h", "a", "a"), [None, Fraction(0), Fraction(1), Fraction(-1, 2)]),
           (("h", "a", "b"), [None, Fraction(0), Fraction(1)])]


def all_states():
    out = []
    for mask in range(1 << len(ATOMS)):
        atoms = frozenset(ATOMS[i] for i in range(len(ATOMS)) if mask >> i & 1)
        for vals in itertools.product(*[v for _, v in FLUENTS]):
            fl = {k: v for (k, _), v in zip(FLUENTS, vals) if v is not None}
            out.append((atoms, fl))
    return out


class Builder:
    def __init__(self, rng):
        self.rng = rng
        self.dom = lib.parse_domain_text(DOMAIN)
        self.tp = lib.TrajectoryParser(self.dom, None)
        self.objs = None

    def problem_text(self, st, shuffle=True):
        atoms, fl = st
        init = [list(a) for a in sorted(atoms)] + [["=", list(k), lib.frac_str(v)] for k, v in sorted(fl.items())]
        if shuffle:
            self.rng.shuffle(init)
        objs = []
        for o, t in OBJECTS.items():
            objs += [o, "-", t]
        return sx.plain(["define", ["problem", "x"], [":domain", "sv"], [":objects"] + objs, [":init"] + init, [":goal", ["and"]]])

    def via_problem(self, st):
        pr = lib.parse_problem_text(self.problem_text(st), self.dom)
        self.objs = pr.objects
        return lib.init_state(pr)

    def via_trajectory(self, st):
        atoms, fl = st
        items = [list(a) for a in sorted(atoms)] + [["=", list(k), lib.frac_str(v)] for k, v in sorted(fl.items())]
        self.rng.shuffle(items)
        return self.tp.parse_state(items)

    def via_copy(self, st):
        return self.via_problem(st).copy()

    def via_successor(self, st):
        """reach st by one action from a neighbour state, when a neighbour exists in the action set"""
        atoms, fl = st
        if ("z",) in atoms:
            base = (atoms - {("z",)}, fl)
            return lib.make_operator(self.dom, "set-z", [], self.objs).apply(self.via_problem(base))
        if ("p", "a") in atoms:
            base = (atoms - {("p", "a")}, fl)
            return lib.make_operator(self.dom, "set-p", ["a"], self.objs).apply(self.via_problem(base))
        if ("f", "a") in fl:
            base = (atoms, dict(fl, **{}))
            base[1][("f", "a")] = fl[("f", "a")] - 1
            return lib.make_operator(self.dom, "inc-f", ["a"], self.objs).apply(self.via_problem(base))
        base = (atoms | {("z",)}, fl)
        return lib.make_operator(self.dom, "clr-z", [], self.objs).apply(self.via_problem(base))

    def build(self, st, route):
        return getattr(self, "via_" + route)(st)


ROUTES = ["problem", "trajectory", "copy", "successor"]


def dist(s1, s2):
    a1, f1 = s1
    a2, f2 = s2
    d = len(a1 ^ a2)
    for k in set(f1) | set(f2):
        if f1.get(k) != f2.get(k):
            d += 1
    return d


def check_pair(ctx, i, j, st1, st2, o1, o2, r1, r2):
    exp = (st1[0] == st2[0] and st1[1] == st2[1])
    try:
        got = (o1 == o2)
    except BaseException as e:
        got = lib.exc_name(e)
    ctx.count("compared:eq")
    ctx.count("compared:eq:expected-equal" if exp else "compared:eq:expected-unequal")
    if dist(st1, st2) == 1 or (exp and r1 != r2):
        ctx.nontrivial([model.canon_state(st1), model.canon_state(st2)])
    if got is not exp:
        kind = "unequal-contents-compare-equal" if got is True else ("equal-contents-compare-unequal" if got is False else "eq-raises")
        ctx.violation("state-eq:" + kind, {"s1": model.show_state(st1), "s2": model.show_state(st2), "routes": [r1, r2],
                                           "expected": exp, "observed": got})
        return False
    return True


def probe_copy_and_serialize(ctx, b, st, route, rng):
    s = b.build(st, route)
    # copy law + independence
    c = s.copy()
    ctx.count("compared:copy")
    if not (c == s and s == c):
        ctx.violation("state-copy:copy-not-equal-to-original", {"state": model.show_state(st), "route": route})
    before_s = digest.d_state_value(s)
    # mutate the copy through its public containers
    try:
        for k, group in c.state_predicates.items():
            for gp in list(group):
                group.discard(gp)
                break
        for k, f in c.state_fluents.items():
            f.set_value(f.value + 7)
            break
        c.state_fluents.pop(next(iter(c.state_fluents)), None) if c.state_fluents else None
    except BaseException:
        pass
    ctx.count("compared:copy")
    if digest.d_state_value(s) != before_s:
        ctx.violation("state-copy:mutating-the-copy-changed-the-original",
                      {"state": model.show_state(st), "route": route,
                       "first_difference": digest.first_difference(before_s, digest.d_state_value(s))})
    # mutate the original, the (second) copy must keep its value
    c2 = s.copy()
    before_c2 = digest.d_state_value(c2)
    try:
        for k, f in s.state_fluents.items():
            f.set_value(f.value - 3)
        for k, group in s.state_predicates.items():
            group.clear()
        lib.make_operator(b.dom, "set-z", [], b.objs).apply(c2)  # apply must not touch its argument either
    except BaseException:
        pass
    ctx.count("compared:copy")
    if digest.d_state_value(c2) != before_c2:
        ctx.violation("state-copy:mutating-the-original-changed-the-copy",
                      {"state": model.show_state(st), "route": route,
                       "first_difference": digest.first_difference(before_c2, digest.d_state_value(c2))})
    # serialisation: re-read by my reader and by the library's trajectory parser
    s = b.build(st, route)
    try:
        txt = s.serialize()
        back = model.read_state_text(txt)
        ctx.count("compared:serialize")
        if (set(back[0]), back[1]) != (set(st[0]), st[1]):
            ctx.violation("state-serialize:text-does-not-denote-the-state",
                          {"state": model.show_state(st), "route": route, "text": txt, "read_back": model.show_state(back)})
        s2 = b.tp.parse_state(sx.read(txt)[1:])
        ctx.count("compared:serialize")
        if not (s2 == s):
            ctx.violation("state-serialize:library-reads-its-own-text-as-a-different-state",
                          {"state": model.show_state(st), "route": route, "text": txt})
    except BaseException as e:
        ctx.violation("state-serialize:raises", {"state": model.show_state(st), "route": route, "observed": lib.exc_name(e)})


def probe_text_follows_the_state(ctx, b, st, route, rng):
    """a state is a mutable value: after it was written (and queried) and then changed in place through its public
    containers, writing it again gives the text of the state it is NOW"""
    atoms, fl = st
    plain_fl = [k for k in fl if len(set(k[1:])) == len(k[1:])]
    if not atoms and not plain_fl:
        return
    s = b.build(st, route)
    try:
        s.serialize()
        s.typed_serialize()
        lib.make_operator(b.dom, "set-z", [], b.objs).is_applicable(s)
    except BaseException:
        pass
    want_atoms, want_fl = set(atoms), dict(fl)
    done = False
    try:
        if plain_fl and (not atoms or rng.random() < 0.5):
            k = rng.choice(sorted(plain_fl))
            key = "(" + " ".join(k) + ")"
            if key in s.state_fluents:
                s.state_fluents[key].set_value(float(fl[k]) + 7)
                want_fl[k] = fl[k] + 7
                done = True
        if not done and atoms:
            a = rng.choice(sorted(atoms))
            txt = "(" + " ".join(a) + (" " if len(a) == 1 else "") + ")"
            for group in s.state_predicates.values():
                for gp in list(group):
                    if sx.read(gp.untyped_representation) == list(a):
                        group.discard(gp)
                        want_atoms.discard(a)
                        done = True
    except BaseException:
        return
    if not done:
        return
    ctx.count("compared:serialize")
    ctx.count("compared:text-after-in-place-change")
    try:
        t2 = s.serialize()
        back = model.read_state_text(t2)
    except BaseException as e:
        ctx.violation("state-serialize:raises", {"state": model.show_state(st), "route": route, "observed": lib.exc_name(e)})
        return
    if (set(back[0]), back[1]) != (want_atoms, want_fl):
        ctx.violation("state-serialize:text-written-after-an-in-place-change-is-not-the-state",
                      {"state_before": model.show_state(st), "state_now": model.show_state((frozenset(want_atoms), want_fl)),
                       "route": route, "text": t2})


def probe_parsed_states_are_independent(ctx, b, sts, rng):
    """the states of a parsed observation are values of their own: changing one in place changes no other
    (the pre-state of step i+1 equals the post-state of step i, it is not the same object)"""
    def items(st):
        atoms, fl = st
        return [list(a) for a in sorted(atoms)] + [["=", list(k), lib.frac_str(v)] for k, v in sorted(fl.items())]
    text = "(" + sx.plain([":init"] + items(sts[0]))
    for st in sts[1:]:
        text += "\n(operator: (set-z ))\n" + sx.plain([":state"] + items(st))
    text += "\n)"
    try:
        from pathlib import Path
        from vlib import env
        obs = lib.TrajectoryParser(b.dom, None).parse_trajectory(Path(env.write_tmp(text, suffix=".trajectory")))
        comps = list(obs.components)
    except BaseException as e:
        ctx.count("trajectory_independence_probe_refused")
        return
    states = []
    for c in comps:
        states += [c.previous_state, c.next_state]
    for i in range(len(states)):
        before = [digest.d_state_value(x) for x in states]
        try:
            tgt = states[i]
            for f in tgt.state_fluents.values():
                f.set_value(f.value + 11)
                break
            for group in tgt.state_predicates.values():
                if group:
                    group.discard(next(iter(group)))
                    break
        except BaseException:
            continue
        ctx.count("compared:copy")
        ctx.count("compared:parsed-states-independent")
        for j in range(len(states)):
            if j != i and digest.d_state_value(states[j]) != before[j]:
                ctx.violation("state-copy:changing-one-parsed-state-changed-another",
                              {"changed": f"state {i} of the observation (0 = pre-state of step 0, 1 = its post-state, ...)",
                               "also_changed": j, "trajectory": text[:1500]})
                return


def random_big_state(rng):
    objs = ["a", "b"]
    atoms = set()
    for x in objs:
        if rng.random() < 0.5:
            atoms.add(("p", x))
        for y in objs:
            if rng.random() < 0.4:
                atoms.add(("q", x, y))
    if rng.random() < 0.5:
        atoms.add(("z",))
    fl = {}
    vals = [Fraction(0), Fraction(1), Fraction(-1, 2), Fraction(5, 4), Fraction(-3)]
    used = set()
    for x in objs:
        if rng.random() < 0.6:
            fl[("f", x)] = rng.choice(vals)
        for y in objs:
            if rng.random() < 0.4:
                fl[("h", x, y)] = rng.choice(vals)
            for zz in objs:
                ck = tuple(model.collapse_args([x, y, zz]))
                if rng.random() < 0.25 and ck not in used:
                    # at most one g3 fluent per collapsed key: storage collisions are kept out, so the emulation
                    # of the recorded defect does not depend on the order in which a route inserts the fluents
                    used.add(ck)
                    fl[("g3", x, y, zz)] = rng.choice(vals)
    return frozenset(atoms), fl


def run(ctx):
    lib.assert_repo()
    rng = ctx.rng("c14")
    thorough = ctx.tier == "thorough"
    b = Builder(rng)
    b.via_problem((frozenset(), {}))
    states = all_states()
    if not thorough:
        srng = __import__("random").Random(ctx.seed + 99)
        states = srng.sample(states, 320)
    ctx.notes["states_enumerated"] = len(states)
    # objects for every state, two routes each (alternating), built once per shard for the rows it owns
    n = len(states)
    rows = [i for i in range(n) if i % ctx.nshards == ctx.shard]
    col_objs = []
    col_routes = []
    for j, st in enumerate(states):
        r = ROUTES[j % 2]  # problem / trajectory for the column objects
        col_routes.append(r)
        col_objs.append(b.build(st, r))
    if not ctx.next_case():
        pass
    for i in rows:
        st1 = states[i]
        r1 = ROUTES[2 + (i % 2)] if i % 3 else "problem"
        try:
            o1 = b.build(st1, r1)
        except BaseException as e:
            ctx.violation("state-build-raises", {"state": model.show_state(st1), "route": r1, "observed": lib.exc_name(e)})
            continue
        ctx.count("cases")
        ctx.count("exhaustive_blocks")
        ok = True
        for j in range(n):
            if not check_pair(ctx, i, j, st1, states[j], o1, col_objs[j], r1, col_routes[j]):
                ok = False
                break
        # symmetry on a sample: (o2 == o1) must agree
        for j in rng.sample(range(n), 12):
            ctx.count("compared:eq")
            try:
                if (col_objs[j] == o1) is not (o1 == col_objs[j]):
                    ctx.violation("state-eq:not-symmetric", {"s1": model.show_state(st1), "s2": model.show_state(states[j])})
            except BaseException:
                pass
        probe_copy_and_serialize(ctx, b, st1, r1, rng)
        probe_text_follows_the_state(ctx, b, st1, r1, rng)
        if i % 5 == 0:
            probe_parsed_states_are_independent(ctx, b, [st1] + [states[j] for j in rng.sample(range(n), rng.randint(1, 3))], rng)
        if i == rows[0]:
            ctx.sample({"state": model.show_state(st1), "route": r1, "compared_with": n})
    # pairs of states that differ only by a hair in one fluent value: == must tell them apart and their serialisations
    # must read back as different states (a lossy number format would merge them)
    NEAR = [("6.666666666666667e-05", "6.66667e-05"), ("0.30000000000000004", "0.3"), ("123456789.125", "123456789.12500001"),
            ("2.5e-11", "0"), ("1e-05", "1.0000000001e-05"), ("-0.0001220703125", "-0.00012207031"), ("1.0", "1.0000000000000002")]
    for a_txt, b_txt in NEAR:
        ctx.count("cases")
        va, vb = Fraction(float(a_txt)), Fraction(float(b_txt))
        base = states[rng.randrange(len(states))]
        s1 = (base[0], {**base[1], ("f", "b"): va})
        s2 = (base[0], {**base[1], ("f", "b"): vb})
        for route in ("problem", "trajectory"):
            try:
                o1, o2 = b.build(s1, route), b.build(s2, route)
                eq = (o1 == o2)
                t1, t2 = o1.serialize(), o2.serialize()
                r1, r2 = model.read_state_text(t1), model.read_state_text(t2)
                same_text_value = (float(r1[1][("f", "b")]) == float(r2[1][("f", "b")]))
                v1, v2 = float(o1.state_fluents["(f b)"].value), float(o2.state_fluents["(f b)"].value)
            except BaseException as e:
                ctx.violation("state-near-values:raises", {"values": [a_txt, b_txt], "route": route, "observed": lib.exc_name(e)})
                continue
            ctx.count("compared:eq")
            ctx.count("compared:eq:expected-unequal")
            ctx.count("compared:serialize")
            ctx.nontrivial(["near", a_txt, b_txt, route])
            if v1 != float(va) or v2 != float(vb):
                ctx.violation("state-near-values:value-not-kept", {"values": [a_txt, b_txt], "route": route, "held": [repr(v1), repr(v2)]})
            elif eq is not False:
                ctx.violation("state-eq:unequal-contents-compare-equal[values-differ-by-a-hair]", {"values": [a_txt, b_txt], "route": route})
            elif same_text_value:
                ctx.violation("state-serialize:unequal-states-serialise-to-the-same-value", {"values": [a_txt, b_txt], "route": route, "texts": [t1, t2]})
    # zero is zero: a state holding -0.0 (written "-0", or reached by (assign (f b) (* (f a) -1)) from 0) equals the state holding 0
    for route in ("problem", "trajectory"):
        ctx.count("cases")
        base = states[rng.randrange(len(states))]
        try:
            b_zero = Builder(rng)
            b_zero.problem_text = lambda st, shuffle=True, _o=b_zero.problem_text: _o(st, shuffle).replace("(= (f b) 0)", "(= (f b) -0.0)")
            o_pos = b.build((base[0], {**base[1], ("f", "b"): Fraction(0)}), route)
            if route == "problem":
                o_neg = b_zero.build((base[0], {**base[1], ("f", "b"): Fraction(0)}), "problem")
            else:
                items = [list(a) for a in sorted(base[0])] + [["=", list(k), lib.frac_str(v)] for k, v in sorted(base[1].items()) if k != ("f", "b")] + [["=", ["f", "b"], "-0.0"]]
                o_neg = b.tp.parse_state(items)
            ctx.count("compared:eq")
            ctx.count("compared:eq:expected-equal")
            ctx.count("compared:negative-zero")
            if not (o_pos == o_neg and o_neg == o_pos):
                ctx.violation("state-eq:equal-contents-compare-unequal[0.0-and--0.0]", {"state": model.show_state(base), "route": route,
                                                                                       "texts": [o_pos.serialize(), o_neg.serialize()]})
        except BaseException as e:
            ctx.violation("state-near-values:raises", {"values": ["0", "-0.0"], "route": route, "observed": lib.exc_name(e)})
    # random larger states incl. ternary fluents (repeated-argument finding lives here)
    for k in range(400 if thorough else 40):
        ctx.count("cases")
        st1 = random_big_state(rng)
        st2 = random_big_state(rng) if rng.random() < 0.5 else st1
        if rng.random() < 0.5 and st1[1]:
            # a near copy: change exactly one fluent argument order / value
            key = rng.choice(sorted(st1[1]))
            fl2 = dict(st1[1])
            if rng.random() < 0.5:
                fl2[key] = fl2[key] + 1
            else:
                v = fl2.pop(key)
                nk = (key[0],) + tuple(reversed(key[1:]))
                if any(k2 != key and k2[0] == nk[0] and model.collapse_args(k2[1:]) == model.collapse_args(nk[1:]) for k2 in fl2):
                    nk = key
                fl2[nk] = v
            st2 = (st1[0], fl2)
        try:
            o1, o2 = b.build(st1, rng.choice(ROUTES[:3])), b.build(st2, rng.choice(ROUTES[:3]))
            got = (o1 == o2)
        except BaseException as e:
            got = lib.exc_name(e)
        exp = (st1[0] == st2[0] and st1[1] == st2[1])
        ctx.count("compared:eq")
        ctx.count("compared:eq:expected-equal" if exp else "compared:eq:expected-unequal")
        if got is not exp:
            # known finding: the emulated stores of the two states coincide exactly when the library says equal
            e1 = model.emulate_fluent_store(sorted(st1[1].items()))
            e2 = model.emulate_fluent_store(sorted(st2[1].items()))
            trig = any(model.has_repeat(k) and len(k) >= 4 for k in list(st1[1]) + list(st2[1]))
            exp_emu = (st1[0] == st2[0] and e1 == e2)
            if trig and got is exp_emu:
                ctx.known_finding("KF-REPEATED-ARGS", {"s1": model.show_state(st1), "s2": model.show_state(st2), "expected": exp, "observed": got})
            else:
                ctx.violation("state-eq:random-larger-states", {"s1": model.show_state(st1), "s2": model.show_state(st2), "expected": exp, "observed": got})

"""C17 - combining agent domains/problems yields their union and disturbs nothing else.

Monitor: MultiAgentDomainsConverter(dir).locate_domains / export_combined_domain and
MultiAgentProblemsConverter(dir, prefix).combine_problems / export_combined_problem, under every
discovery order of the per-agent files (injected through a Path subclass whose glob() returns the
real matches in a chosen permutation), vs the union computed by the reference model from the
per-file texts; purity of everything that is not the result."""
import itertools
import os
import shutil
from pathlib import Path

from vlib import sx, lib, model, gen, magen, env, digest
from checks import c01, c05

RULE = ("splits of generated multi-agent worlds into 1-4 overlapping per-agent domain and problem files (private objects, "
        "shared facts / fluents / goals repeated in several files, optional dummy actions), every discovery order of the files "
        "(all permutations), preceded and followed by parsing unrelated typed and untyped domains; plus the three shipped "
        "directories; a case = one (split, discovery order); distinct by file texts + order; non-trivial when >= 2 files "
        "overlap in at least one predicate, action, fact or goal")
DECISIVE = ["compared:domain-union", "compared:problem-union"]
DECISIVE_EACH = ["compared:domain-union", "compared:problem-union", "compared:order-independence", "compared:leak", "compared:export-roundtrip"]
ASSUMPTIONS = ["per-agent files overlap but agree (same definition wherever a name occurs in two files)",
               "discovery order is injected by a behaviour-preserving Path subclass (same matches, permuted)"]
SHARDS = {"quick": 16, "thorough": 16}

ORDER = {"perm": None}


class OrderedPath(type(Path())):
    """a Path whose glob() returns the real matches in an injected permutation"""

    def glob(self, pattern, **kw):
        real = sorted(super().glob(pattern, **kw))
        perm = ORDER["perm"]
        if perm is None or len(perm) != len(real):
            return iter(real)
        ORDER.setdefault("seen", set()).add(tuple(perm))
        return iter([real[i] for i in perm])


def split_world(rng, w, st0, goal, k):
    """per-agent domain / problem ASTs.  Returns (domain_texts, problem_texts, overlap?)"""
    agents = w.agents[:k]
    acts = w.actions
    files_d, files_p = [], []
    overlap = False
    # every action goes to >= 1 file; some to two
    owner = {}
    for a in acts:
        o = {rng.randrange(k)}
        if rng.random() < 0.3:
            o.add(rng.randrange(k))
        owner[a["name"]] = o
    for i in range(k):
        wi = gen.W()
        wi.name = w.name
        wi.requirements = w.requirements
        wi.types = list(w.types)
        # every file declares some of the constants, in an order of its own (root-typed ones anywhere in the list)
        cs = [c for c in w.constants.items() if i == 0 and rng.random() < 0.7 or rng.random() < 0.6]
        rng.shuffle(cs)
        wi.constants = dict(cs)
        mine = [a for a in acts if i in owner[a["name"]]]
        used = set()
        usedf = set()
        for a in mine:
            for t in walk_heads(a["pre"]) | walk_heads(a["eff"]):
                if t in w.preds:
                    used.add(t)
                if t in w.funcs:
                    usedf.add(t)
        # public predicates known to everybody + what the own actions use
        pub = {p for p in w.preds if rng.random() < 0.5}
        # file 0 knows the whole vocabulary, so that the union covers everything the problems mention
        wi.preds = {p: s for p, s in w.preds.items() if i == 0 or p in used | pub}
        wi.funcs = {f: s for f, s in w.funcs.items() if i == 0 or f in usedf or rng.random() < 0.4}
        wi.actions = mine
        files_d.append(wi)
    # make sure the union covers the whole vocabulary (otherwise the expected union is simply smaller: still fine)
    st_atoms, st_fl = st0
    for i in range(k):
        others = set(agents) - {agents[i]}
        hidden = set(w.agents) - {agents[i]}
        vis = lambda tup: not (set(tup[1:]) & hidden)
        my_atoms = set()
        for a in st_atoms:
            if not vis(a):
                continue
            if set(a[1:]) & {agents[i]}:
                my_atoms.add(a)
            elif rng.random() < 0.6:
                my_atoms.add(a)
        my_fl = {}
        for kf, v in st_fl.items():
            if not vis(kf):
                continue
            if set(kf[1:]) & {agents[i]} or rng.random() < 0.6:
                my_fl[kf] = v
        my_goal = ["and"] + [g for g in goal[1:] if vis(tuple(flat(g))) and (rng.random() < 0.7)]
        objs_pub = [(o, t) for o, t in w.objects.items() if o not in w.agents]
        objs_priv = [(agents[i], w.objects[agents[i]])]
        files_p.append((objs_pub, objs_priv, my_atoms, my_fl, my_goal))
    # agents beyond k, and facts nobody picked, are added to file 0 so that the union is the whole problem
    return files_d, files_p


def flat(g):
    out = []

    def go(x):
        if isinstance(x, list):
            for y in x:
                go(y)
        else:
            out.append(x)
    go(g)
    return out


def walk_heads(t):
    out = set()

    def go(x):
        if isinstance(x, list) and x:
            if isinstance(x[0], str):
                out.add(x[0])
            for y in x:
                go(y)
    go(t)
    return out


def problem_ast(name, dom, objs_pub, objs_priv, atoms, fl, goal, rng):
    objs = []
    for o, t in objs_pub:
        objs += [o, "-", t]
    priv = [":private"]
    for o, t in objs_priv:
        priv += [o, "-", t]
    init = [list(a) for a in sorted(atoms)] + [["=", list(k), gen.frac_str(v)] for k, v in sorted(fl.items())]
    rng.shuffle(init)
    return ["define", ["problem", name], [":domain", dom], [":objects"] + objs + [priv], [":init"] + init, [":goal", goal]]


def union_vocab(texts):
    v = {"types": {}, "constants": {}, "predicates": {}, "functions": {}, "actions": {}}
    for t in texts:
        m = c01.vocabulary_of_model(model.RefDomain.from_text(t))
        for sec in v:
            v[sec].update(m[sec])
    return v


def canon_vocab(v):
    return {sec: sorted((k, str(x)) for k, x in v[sec].items()) for sec in v}


def run_split(ctx, rng, thorough, case_no):
    from pddl_plus_parser.multi_agent import MultiAgentDomainsConverter, MultiAgentProblemsConverter
    w = magen.ma_world(rng, n_agents=rng.randint(2, 4))
    if rng.random() < 0.6:
        w.constants = dict(rng.sample([("base", "loc"), ("hq", "object"), ("spare", "item"), ("anything", "object")], rng.randint(1, 4)))
    k = rng.randint(1, len(w.agents))
    w.agents = w.agents[:k]
    for a in list(w.objects):
        if w.objects[a] in ("ag", "robot") and a not in w.agents:
            del w.objects[a]
    dom_m_full = model.RefDomain.from_text(w.domain_text())
    wm = model.World(dom_m_full, w.objects)
    st0 = magen.ma_initial_state(rng, w)
    goal = ["and"] + [list(a) for a in rng.sample(sorted(st0[0]), min(3, len(st0[0])))]
    if w.funcs:
        goal.append([">=", ["total"], "0"])
        if rng.random() < 0.5:
            # two numeric goals that differ only after the fourth decimal: two conditions, not a duplicate
            goal.append(["<=", ["total"], "2.50001"])
            goal.append(["<=", ["total"], "2.50004"])
    files_d, files_p = split_world(rng, w, st0, goal, k)
    d = os.path.join(env.scratch(), f"split{case_no}")
    os.makedirs(d, exist_ok=True)
    dtexts, ptexts = [], []
    for i, wi in enumerate(files_d):
        ast = wi.domain_ast()
        if rng.random() < 0.5:
            # MA-PDDL style: some predicates of the file sit in a (:private ...) block - first, last or in the middle
            for sec in ast:
                if isinstance(sec, list) and sec and sec[0] == ":predicates" and len(sec) > 2:
                    ps = sec[1:]
                    n_priv = rng.randint(1, len(ps) - 1)
                    priv = [ps.pop(rng.randrange(len(ps))) for _ in range(n_priv)]
                    ps.insert(rng.randint(0, len(ps)), [":private"] + priv)
                    sec[1:] = ps
                    ctx.count("agent_files_with_a_private_predicates_block")
        t = sx.plain(ast)
        dtexts.append(t)
        with open(os.path.join(d, f"domain-{w.agents[i]}.pddl"), "wt") as f:
            f.write(t)
    for i, (pub, priv, atoms, fl, g) in enumerate(files_p):
        t = sx.plain(problem_ast("maprob", w.name, pub, priv, atoms, fl, g, rng))
        ptexts.append(t)
        with open(os.path.join(d, f"problem-{w.agents[i]}.pddl"), "wt") as f:
            f.write(t)
    exp_v = union_vocab(dtexts)
    overlap = k >= 2 and any(len([1 for wi in files_d if p in wi.preds]) >= 2 for p in w.preds)
    wit = {"directory_files": {f"domain-{a}.pddl": t for a, t in zip(w.agents, dtexts)}, "problem_files": {f"problem-{a}.pddl": t for a, t in zip(w.agents, ptexts)}}
    # ---- leak baseline -------------------------------------------------------------------------
    import pddl_plus_parser.models.pddl_domain as PD
    fresh_before = lib.Domain()
    other = lib.parse_domain_text(OTHER_TYPED)
    base = {"fresh": digest.d_domain(fresh_before), "other": digest.d_domain(other), "DEFAULT_TYPES": digest.d_types(PD.DEFAULT_TYPES)}
    perms = list(itertools.permutations(range(k)))
    if not thorough and len(perms) > 6:
        perms = rng.sample(perms, 6)
    results = {}
    dummy = rng.random() < 0.3
    for perm in perms:
        if not ctx.next_case():
            continue
        ctx.count("cases")
        ORDER["perm"] = list(perm)
        w1 = dict(wit, discovery_order=[f"domain-{w.agents[i]}.pddl" for i in sorted(range(k), key=lambda x: perm.index(x) if False else x)], perm=list(perm), add_dummy_actions=dummy)
        try:
            try:
                comb = MultiAgentDomainsConverter(OrderedPath(d)).locate_domains(add_dummy_actions=dummy)
            finally:
                ORDER["perm"] = None
        except BaseException as e:
            ctx.count("compared:domain-union")
            ctx.violation("combine-domains:raises", dict(w1, observed=lib.exc_name(e)))
            continue
        ctx.count("compared:domain-union")
        if overlap:
            ctx.nontrivial([dtexts, list(perm)])
        got_v = c01.vocabulary_of_lib(comb)
        exp = {sec: dict(x) for sec, x in exp_v.items()}
        if dummy:
            exp["predicates"]["dummy-additional-predicate"] = []
            exp["actions"]["dummy-add-predicate-action"] = [("?agent", "object")]
            exp["actions"]["dummy-del-predicate-action"] = [("?agent", "object")]
        dv = c01.compare_vocab(got_v, exp)
        if dv:
            ctx.violation("combine-domains:result-is-not-the-union", dict(w1, differences=dv[:6]))
            continue
        results[perm] = canon_vocab(got_v)
        # leaks
        ctx.count("compared:leak")
        fresh_after = lib.Domain()
        leaks = []
        if digest.d_domain(fresh_after) != base["fresh"]:
            leaks.append("a Domain() created after the combination differs from one created before: " + str(digest.first_difference(base["fresh"], digest.d_domain(fresh_after))))
        if digest.d_domain(fresh_before) != base["fresh"]:
            leaks.append("the Domain() created before the combination was modified")
        if digest.d_domain(other) != base["other"]:
            leaks.append("a previously parsed domain was modified")
        if digest.d_types(PD.DEFAULT_TYPES) != base["DEFAULT_TYPES"]:
            leaks.append("module global DEFAULT_TYPES was modified")
        try:
            ut = lib.parse_domain_text(OTHER_UNTYPED)
            if sorted(ut.types) != ["object"]:
                leaks.append(f"an untyped domain parsed afterwards has types {sorted(ut.types)}")
        except BaseException as e:
            leaks.append("parsing an untyped domain afterwards raises " + lib.exc_name(e))
        if leaks:
            ctx.violation("combine-domains:leaks-into-other-domains", dict(w1, leaks=leaks))
    ctx.count("compared:order-independence")
    if len({repr(v) for v in results.values()}) > 1:
        ctx.violation("combine-domains:result-depends-on-discovery-order", dict(wit, orders=[list(p) for p in results]))
    # ---- export / re-parse + problems --------------------------------------------------------------
    try:
        outp = MultiAgentDomainsConverter(OrderedPath(d)).export_combined_domain(add_dummy_actions=False)
        comb2 = lib.DomainParser(Path(outp)).parse_domain()
        ctx.count("compared:export-roundtrip")
        dv = c01.compare_vocab(c01.vocabulary_of_lib(comb2), exp_v)
        if dv:
            ctx.violation("combine-domains:exported-combined-domain-is-not-the-union", dict(wit, differences=dv[:6], exported=open(outp).read()[:3000]))
            return
    except BaseException as e:
        ctx.count("compared:export-roundtrip")
        ctx.violation("combine-domains:export-or-reparse-raises", dict(wit, observed=lib.exc_name(e)))
        return
    # problems: expected union
    exp_objs, exp_atoms, exp_fl, exp_goals, exp_ng = {}, set(), {}, set(), set()
    for (pub, priv, atoms, fl, g) in files_p:
        exp_objs.update(dict(pub))
        exp_objs.update(dict(priv))
        exp_atoms |= set(atoms)
        exp_fl.update(fl)
        for x in g[1:]:
            if x[0] in model.CMP:
                exp_ng.add(repr(model.canon_expr(x)))
            else:
                exp_goals.add((True, tuple(x)))
    presults = {}
    for perm in perms:
        ORDER["perm"] = list(perm)
        try:
            try:
                cp = MultiAgentProblemsConverter(OrderedPath(d), "problem").combine_problems(Path(outp))
            finally:
                ORDER["perm"] = None
            obs = c05.observe_problem(cp)
        except BaseException as e:
            ctx.count("compared:problem-union")
            ctx.violation("combine-problems:raises", dict(wit, perm=list(perm), observed=lib.exc_name(e)))
            return
        ctx.count("compared:problem-union")
        diffs = []
        if obs["objects"] != exp_objs:
            diffs.append(f"objects: expected {sorted(exp_objs.items())} observed {sorted(obs['objects'].items())}")
        if obs["atoms"] != exp_atoms:
            diffs.append(f"init facts: missing {sorted(exp_atoms - obs['atoms'])} extra {sorted(obs['atoms'] - exp_atoms)}")
        if obs["fluents"] != exp_fl:
            diffs.append("fluent values differ")
        if sorted(obs["goals"]) != sorted(exp_goals):
            diffs.append(f"goal literals (duplicates count): expected {sorted(exp_goals)} observed {sorted(obs['goals'])}")
        if obs["numeric_goals"] != sorted(exp_ng):
            diffs.append(f"numeric goals (duplicates count): expected {sorted(exp_ng)} observed {obs['numeric_goals']}")
        if diffs:
            kinds = "+".join(sorted({x.split(":")[0].split(" (")[0].replace(" ", "-") for x in diffs}))
            ctx.violation(f"combine-problems:result-is-not-the-union-without-duplicates[{kinds}]", dict(wit, perm=list(perm), differences=diffs))
            return
        presults[perm] = repr((sorted(obs["objects"].items()), sorted(obs["atoms"]), sorted(obs["fluents"].items()), sorted(obs["goals"]), obs["numeric_goals"]))
    ctx.count("compared:order-independence")
    if len(set(presults.values())) > 1:
        ctx.violation("combine-problems:result-depends-on-discovery-order", dict(wit))
    # export the combined problem and read it back
    try:
        MultiAgentProblemsConverter(OrderedPath(d), "problem").export_combined_problem(Path(outp))
        back = lib.ProblemParser(Path(os.path.join(d, "combined_problem.pddl")), comb2).parse_problem()
        ob = c05.observe_problem(back)
        ctx.count("compared:export-roundtrip")
        if ob["objects"] != exp_objs or ob["atoms"] != exp_atoms or ob["fluents"] != exp_fl or sorted(ob["goals"]) != sorted(exp_goals):
            ctx.violation("combine-problems:exported-combined-problem-is-not-the-union", dict(wit, exported=open(os.path.join(d, "combined_problem.pddl")).read()[:3000]))
    except BaseException as e:
        ctx.count("compared:export-roundtrip")
        ctx.violation("combine-problems:export-or-reparse-raises", dict(wit, observed=lib.exc_name(e)))
    if case_no == 0:
        ctx.sample({"files": list(wit["directory_files"]) + list(wit["problem_files"]), "first_domain_file": dtexts[0][:900]})
    shutil.rmtree(d, ignore_errors=True)


OTHER_TYPED = """(define (domain other) (:requirements :typing) (:types veh - object car - veh place)
 (:predicates (at ?v - veh ?l - place)) (:action go :parameters (?v - car ?a - place) :precondition (and) :effect (and (at ?v ?a))))"""
OTHER_UNTYPED = """(define (domain blocks) (:requirements :strips) (:predicates (on ?x ?y) (clear ?x))
 (:action noop :parameters (?x) :precondition (and (clear ?x)) :effect (and (clear ?x))))"""


def shipped_dirs(ctx, rng):
    from pddl_plus_parser.multi_agent import MultiAgentDomainsConverter
    rp = os.path.join(env.repo_path(), "tests", "multi_agent_tests")
    for j, dn in enumerate(["multi_agent_problem", "blocks_ma_problem", "another_multi_agent_problem"]):
        if j % ctx.nshards != ctx.shard:
            continue
        src = os.path.join(rp, dn)
        d = os.path.join(env.scratch(), "shipped-" + dn)
        shutil.copytree(src, d, dirs_exist_ok=True)
        files = sorted(Path(d).glob("domain-*.pddl"))
        try:
            exp_v = union_vocab([open(f).read() for f in files])
        except Exception:
            ctx.count("shipped_outside_model")
            continue
        res = {}
        n = len(files)
        perms = [list(range(n)), list(reversed(range(n)))] + [rng.sample(range(n), n) for _ in range(6)]
        for perm in perms:
            if not ctx.next_case():
                continue
            ctx.count("cases")
            ORDER["perm"] = perm
            try:
                try:
                    comb = MultiAgentDomainsConverter(OrderedPath(d)).locate_domains()
                finally:
                    ORDER["perm"] = None
            except BaseException as e:
                ctx.violation("combine-domains:raises[shipped]", {"directory": dn, "perm": perm, "observed": lib.exc_name(e)})
                continue
            ctx.count("compared:domain-union")
            ctx.count("shipped_directories")
            ctx.nontrivial([dn, perm])
            dv = c01.compare_vocab(c01.vocabulary_of_lib(comb), exp_v)
            if dv:
                ctx.violation("combine-domains:result-is-not-the-union[shipped]", {"directory": dn, "perm": perm, "differences": dv[:6]})
            res[tuple(perm)] = repr(canon_vocab(c01.vocabulary_of_lib(comb)))
        ctx.count("compared:order-independence")
        if len(set(res.values())) > 1:
            ctx.violation("combine-domains:result-depends-on-discovery-order[shipped]", {"directory": dn})
        shutil.rmtree(d, ignore_errors=True)


def run(ctx):
    lib.assert_repo()
    rng = ctx.rng("c17")
    thorough = ctx.tier == "thorough"
    for i in range(40 if thorough else 4):
        run_split(ctx, rng, thorough, i)
    shipped_dirs(ctx, rng)
    ctx.seen("discovery_orders", None)
    for p in ORDER.get("seen", ()):
        ctx.seen("discovery_orders", p)

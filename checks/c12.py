"""C12 - numeric expressions evaluate as arithmetic; comparisons use the stated tolerance.

Monitors: (a) calculate() on trees built by construct_expression_tree from text, and successor
fluent values of one-effect actions through the full pipeline, vs exact rational evaluation;
(b) is_applicable of one-condition actions for value pairs placed 0, 1/2, 1 and 2 tolerances
apart at several magnitudes, under EPSILON configurations read in fresh interpreters;
(c) to_pddl(d) re-read by the reference reader (shape, operand order, rounded constants) and by the
library (same value), under NUMERIC_PRECISION configurations."""
import itertools
import math
import os
from fractions import Fraction

from vlib import sx, lib, model, gen

RULE = ("expression trees over + - * / with two fluents and the constants {0, 1, -2, 0.5} (all trees of depth <= 2: sampled in "
        "quick, complete in thorough; random trees to depth 4) on a k/4 valuation grid; comparison pairs at 0, 1/2, 1, 2 "
        "tolerances apart at magnitudes 0, 1, 2^10, 2^20 for every operator and EPSILON in {1e-4 default, 1e-2, 0.5, 0.25}, each setting also "
        "alone with the other at its default; valuations at 2^-14 .. 2^-20 next to the grid (small denominators); "
        "to_pddl under NUMERIC_PRECISION in {default, 0, 2, 6}; a case = (tree, valuation) or (operator, pair, epsilon); "
        "distinct by tree text + valuation / pair; non-trivial when the tree nests - or / on the right or the pair lies within "
        "2 tolerances")
DECISIVE = ["compared:calculate", "compared:comparison", "compared:to_pddl"]
DECISIVE_EACH = ["compared:calculate", "compared:pipeline", "compared:comparison", "compared:to_pddl"]
EXHAUSTIVE = "all expression trees of depth <= 2 over {+,-,*,/} x {x, y, 0, 1, -2, 0.5} (thorough), each on the 5x5 sub-grid of valuations"
ASSUMPTIONS = ["exact rational arithmetic is the specification; + - * and division by powers of two are exact in binary floating point on the dyadic grid, other divisions are compared within 1e-12 relative",
               "pairs exactly one tolerance apart are decisive only for dyadic EPSILON (0.5, 0.25); for decimal EPSILON they are boundary_skipped"]

DOMAIN_T = """(define (domain num) (:requirements :numeric-fluents)
 (:predicates (ok))
 (:functions (x) (y) (r))
 {actions})"""
LEAVES = ["(x)", "(y)", "0", "1", "-2", "0.5"]
OPS = ["+", "-", "*", "/"]
TINY = [Fraction(1, 2 ** 15), Fraction(-1, 2 ** 14), Fraction(3, 2 ** 16), Fraction(1, 2 ** 20)]
CMP_OPS = ["=", "<=", ">=", "<", ">"]


def plan(tier, seed):
    cfgs = [({}, "default"), ({"EPSILON": "0.01", "NUMERIC_PRECISION": "0"}, "1e-2/np0"),
            ({"EPSILON": "0.5", "NUMERIC_PRECISION": "2"}, "0.5/np2"), ({"EPSILON": "0.25", "NUMERIC_PRECISION": "6"}, "0.25/np6"),
            # one setting given, the other left at its default: the two are independent
            ({"NUMERIC_PRECISION": "2"}, "default/np2"), ({"NUMERIC_PRECISION": "6"}, "default/np6"), ({"EPSILON": "0.25"}, "0.25/default")]
    out = []
    per = 4
    for ci, (envo, name) in enumerate(cfgs):
        for k in range(per):
            out.append((ci * per + k, per * len(cfgs), envo, {"cfg": name, "sub": k, "nsub": per}))
    return out


def trees(depth):
    if depth == 0:
        return list(LEAVES)
    sub = trees(depth - 1)
    out = list(sub)
    for op in OPS:
        for a in sub:
            for b in sub:
                out.append(f"({op} {a} {b})")
    return out


def exact(e, val):
    if isinstance(e, str):
        return model.to_frac(e)
    if e[0] in ("x", "y", "r"):
        return val[e[0]]
    a, b = exact(e[1], val), exact(e[2], val)
    if e[0] == "+":
        return a + b
    if e[0] == "-":
        return a - b
    if e[0] == "*":
        return a * b
    if b == 0:
        raise ZeroDivisionError
    return a / b


def is_dyadic(fr):
    d = Fraction(fr).denominator
    return d & (d - 1) == 0


def close(exact_v, got, exact_ok):
    if exact_ok:
        return Fraction(got) == exact_v
    return abs(float(exact_v) - got) <= 1e-12 * max(1.0, abs(float(exact_v)))


def all_dyadic(e, val):
    """every intermediate value dyadic -> float evaluation is exact"""
    try:
        if isinstance(e, str):
            return True
        if e[0] in ("x", "y", "r"):
            return True
        if not (all_dyadic(e[1], val) and all_dyadic(e[2], val)):
            return False
        v = exact(e, val)
        # dyadic AND representable: 2^-40 + 2^20 is dyadic but needs 61 significant bits
        return is_dyadic(v) and abs(v) < 2 ** 40 and Fraction(float(v)) == v
    except ZeroDivisionError:
        return True


def nests_right(e):
    if isinstance(e, str) or e[0] in ("x", "y", "r"):
        return False
    if e[0] in ("-", "/") and isinstance(e[2], list) and e[2][0] in OPS:
        return True
    return nests_right(e[1]) or nests_right(e[2])


def run(ctx):
    lib.assert_repo()
    from pddl_plus_parser.models import construct_expression_tree, calculate, evaluate_expression, NumericalExpressionTree
    import pddl_plus_parser.models.numerical_expression as NE
    rng = ctx.rng("c12")
    thorough = ctx.tier == "thorough"
    eps_env = os.environ.get("EPSILON")
    EPS = Fraction(eps_env) if eps_env else Fraction(1, 10000)
    np_env = os.environ.get("NUMERIC_PRECISION")
    digits_default = int(np_env) if np_env else 4
    ctx.notes["config"] = {"EPSILON": str(EPS), "library_EPSILON": NE.EPSILON, "NUMERIC_PRECISION": digits_default, "library_DEFAULT_DIGITS": NE.DEFAULT_DIGITS}
    ctx.count("compared:config")
    if float(EPS) != NE.EPSILON or digits_default != NE.DEFAULT_DIGITS:
        ctx.violation("config:environment-setting-not-honoured", ctx.notes["config"])
    sub, nsub = ctx.params.get("sub", 0), ctx.params.get("nsub", 1)
    # ---- (d) whole conditions printed under this configuration (str / print of a parsed precondition) --------
    if sub == 0:
        for cond, vals in (("(= (x) 0.5)", [(Fraction(1, 2), True), (Fraction(3, 4), False)]),
                           ("(>= (y) (* 0.25 (x)))", [(Fraction(1), None)]),
                           ("(= (+ (x) (y)) 1.5)", [(Fraction(1), None)])):
            ctx.count("compared:condition-printed-under-config")
            try:
                d_ = lib.parse_domain_text(DOMAIN_T.format(actions=f"(:action a :parameters () :precondition (and {cond}) :effect (and (ok)))"))
                pre = d_.actions["a"].preconditions
                texts = [str(pre), pre.print(should_simplify=True), pre.print(should_simplify=False)]
                for t_ in texts:
                    back = sx.read(t_)
                    if not isinstance(back, list) or back[0] != "and" or len(back) < 2:
                        ctx.violation("print:condition-lost-under-this-configuration", {"condition": cond, "printed": t_, "config": ctx.notes["config"]})
            except BaseException as e:
                ctx.violation("print:precondition-cannot-be-printed-under-this-configuration",
                              {"condition": cond, "observed": lib.exc_name(e), "config": ctx.notes["config"]})
    dom0 = lib.parse_domain_text(DOMAIN_T.format(actions=""))
    funcs = dom0.functions

    def lib_tree(text):
        return construct_expression_tree(lib.PDDLTokenizer(pddl_str=text).parse(), funcs)

    def set_vals(node, val):
        for n in NumericalExpressionTree(node):
            if n.is_leaf and hasattr(n.value, "set_value"):
                n.value.set_value(float(val[n.value.name]))

    # ---- (a) calculate on text-built trees ------------------------------------------------
    ts = trees(2)
    grid5 = [Fraction(k, 4) for k in (-6, -1, 0, 2, 5)]
    grid_full = [Fraction(k, 4) for k in range(-8, 9)]
    mine = [t for i, t in enumerate(ts) if i % nsub == sub]
    if not thorough:
        mine = rng.sample(mine, 700)
    else:
        ctx.count("exhaustive_blocks")
    for ti, t in enumerate(mine):
        if not ctx.next_case():
            continue
        ctx.count("cases")
        ast = sx.read(t) if t.startswith("(") else t
        if isinstance(ast, str):
            continue
        try:
            node = lib_tree(t)
        except BaseException as e:
            ctx.count("compared:calculate")
            ctx.violation("calculate:construct_expression_tree-raises-on-binary-tree", {"expression": t, "observed": lib.exc_name(e)})
            continue
        vals = [(a, b) for a in grid5 for b in grid5] if thorough else [(rng.choice(grid_full), rng.choice(grid_full)) for _ in range(4)]
        # small magnitudes (dyadic, so still exact): a denominator of 3e-5 is not zero
        vals += [(rng.choice(TINY + grid5), rng.choice(TINY + grid5)) for _ in range(6 if thorough else 2)]
        for (vx, vy) in vals:
            val = {"x": vx, "y": vy}
            try:
                ev = exact(ast, val)
            except ZeroDivisionError:
                ctx.count("skipped_division_by_zero")
                continue
            try:
                set_vals(node, val)
                got = calculate(node)
            except ZeroDivisionError as e:
                if all_dyadic(ast, val):
                    # every intermediate value is exact in binary floating point, and the exact evaluation met no zero denominator
                    ctx.count("compared:calculate")
                    ctx.violation("calculate:division-by-a-nonzero-value-refused", {"expression": t, "valuation": {k: str(v) for k, v in val.items()},
                                                                                    "expected": str(ev), "observed": lib.exc_name(e)})
                    break
                ctx.count("skipped_library_division_by_zero")
                continue
            except BaseException as e:
                ctx.violation("calculate:raises", {"expression": t, "valuation": {k: str(v) for k, v in val.items()}, "observed": lib.exc_name(e)})
                break
            ctx.count("compared:calculate")
            if nests_right(ast):
                ctx.nontrivial([t, str(vx), str(vy)])
            if not close(ev, got, all_dyadic(ast, val)):
                ctx.violation("calculate:value-differs-from-arithmetic", {"expression": t, "valuation": {k: str(v) for k, v in val.items()},
                                                                          "expected": str(ev), "observed": got})
                break
        # ---- (c) to_pddl under this NUMERIC_PRECISION + explicit digits -----------------------
        if ti % 3 == 0:
            check_to_pddl(ctx, rng, t, ast, lib_tree, NumericalExpressionTree, calculate, set_vals, digits_default)
        if ti == 0:
            ctx.sample({"expression": t, "valuations": len(vals)})
    # random deeper trees with arbitrary decimal constants
    for i in range(300 if thorough else 60):
        ctx.count("cases")
        t = rand_tree(rng, rng.randint(2, 4))
        ast = sx.read(t)
        try:
            node = lib_tree(t)
        except BaseException as e:
            ctx.violation("calculate:construct_expression_tree-raises-on-binary-tree", {"expression": t, "observed": lib.exc_name(e)})
            continue
        for _ in range(3):
            val = {"x": rng.choice(grid_full), "y": rng.choice(grid_full)}
            try:
                ev = exact(ast, val)
                set_vals(node, val)
                got = calculate(node)
            except ZeroDivisionError:
                continue
            ctx.count("compared:calculate")
            if abs(float(ev) - got) > 1e-9 * max(1.0, abs(float(ev))):
                ctx.violation("calculate:value-differs-from-arithmetic", {"expression": t, "valuation": {k: str(v) for k, v in val.items()},
                                                                          "expected": str(ev), "observed": got})
        check_to_pddl(ctx, rng, t, ast, lib_tree, NumericalExpressionTree, calculate, set_vals, digits_default)
    # ---- (a') full pipeline: assign / increase / decrease -------------------------------------
    pipeline(ctx, rng, thorough, [t for t in mine if t.startswith("(")])
    # ---- (b) comparison tolerance ---------------------------------------------------------------
    comparisons(ctx, rng, EPS, thorough, evaluate_expression, lib_tree, set_vals)


def rand_tree(rng, depth):
    if depth == 0 or rng.random() < 0.25:
        r = rng.random()
        if r < 0.5:
            return rng.choice(["(x)", "(y)"])
        return rng.choice(["3", "-0.75", "2.5", "0.125", "7", "-1.5", "0.3", "1.23456", "-12.005", "100.5"])
    return f"({rng.choice(OPS)} {rand_tree(rng, depth - 1)} {rand_tree(rng, depth - 1)})"


def check_to_pddl(ctx, rng, t, ast, lib_tree, NET, calculate, set_vals, digits_default):
    for d in (None, 0, 2, 6):
        try:
            node = lib_tree(t)
            txt = NET(node).to_pddl() if d is None else NET(node).to_pddl(decimal_digits=d)
            back = sx.read(txt)
        except BaseException as e:
            ctx.count("compared:to_pddl")
            ctx.violation("to_pddl:raises-or-unreadable", {"expression": t, "digits": d, "observed": lib.exc_name(e)})
            return
        dd = digits_default if d is None else d
        ctx.count("compared:to_pddl")
        bad = shape_diff(ast, back, dd)
        if bad:
            ctx.violation("to_pddl:structure-or-constants-differ", {"expression": t, "digits": dd, "printed": txt, "problem": bad})
            return
        # the library reads its own text to the same value as the reference evaluation of that text
        try:
            node2 = lib_tree(txt)
            val = {"x": Fraction(3, 4), "y": Fraction(-5, 4)}
            set_vals(node2, val)
            got = calculate(node2)
            ev = exact(back, val)
            ctx.count("compared:to_pddl")
            if abs(float(ev) - got) > 1e-9 * max(1.0, abs(float(ev))):
                ctx.violation("to_pddl:re-read-value-differs", {"expression": t, "printed": txt, "expected": str(ev), "observed": got})
        except ZeroDivisionError:
            pass
        except BaseException as e:
            ctx.violation("to_pddl:library-cannot-read-its-own-output", {"expression": t, "printed": txt, "observed": lib.exc_name(e)})
            return


def shape_diff(a, b, digits):
    """same tree shape and operand order; numerals equal after rounding to `digits`"""
    if isinstance(a, str) != isinstance(b, str):
        return f"leaf/inner mismatch at {a} vs {b}"
    if isinstance(a, str):
        va, vb = model.to_frac(a), model.to_frac(b)
        if abs(va - vb) > Fraction(1, 2) * Fraction(1, 10 ** digits) + Fraction(1, 10 ** 12):
            return f"constant {a} printed as {b} at {digits} digits"
        return None
    if a[0] in ("x", "y", "r"):
        return None if a == b else f"fluent {a} printed as {b}"
    if len(a) != len(b) or a[0] != b[0]:
        return f"node {a[0]} printed as {b[0] if b else b}"
    for x, y in zip(a[1:], b[1:]):
        r = shape_diff(x, y, digits)
        if r:
            return r
    return None


def pipeline(ctx, rng, thorough, ts):
    sample = rng.sample(ts, min(len(ts), 120 if thorough else 24))
    acts = []
    for i, t in enumerate(sample):
        op = ["assign", "increase", "decrease"][i % 3]
        acts.append(f"(:action e{i} :parameters () :precondition (and) :effect (and ({op} (r) {t})))")
    try:
        dom = lib.parse_domain_text(DOMAIN_T.format(actions="\n".join(acts)))
    except BaseException as e:
        ctx.violation("pipeline:domain-with-binary-expressions-rejected", {"observed": lib.exc_name(e)})
        return
    grid = [Fraction(k, 4) for k in range(-8, 9)]
    for i, t in enumerate(sample):
        ast = sx.read(t)
        op = ["assign", "increase", "decrease"][i % 3]
        for _ in range(6 if thorough else 3):
            val = {"x": rng.choice(grid), "y": rng.choice(grid), "r": rng.choice(grid)}
            try:
                v = exact(ast, val)
            except ZeroDivisionError:
                continue
            want = {"assign": v, "increase": val["r"] + v, "decrease": val["r"] - v}[op]
            ptxt = sx.plain(["define", ["problem", "p"], [":domain", "num"], [":objects"],
                             [":init"] + [["=", [k], lib.frac_str(x)] for k, x in val.items()], [":goal", ["and"]]])
            try:
                pr = lib.parse_problem_text(ptxt, dom)
                nxt = lib.make_operator(dom, f"e{i}", [], pr.objects).apply(lib.init_state(pr))
                got = lib.read_state(nxt)[1][("r",)]
            except ZeroDivisionError:
                continue
            except BaseException as e:
                ctx.count("compared:pipeline")
                ctx.violation("pipeline:apply-raises", {"effect": f"({op} (r) {t})", "valuation": {k: str(x) for k, x in val.items()}, "observed": lib.exc_name(e)})
                break
            ctx.count("compared:pipeline")
            if abs(float(want) - float(got)) > 1e-9 * max(1.0, abs(float(want))):
                ctx.violation(f"pipeline:{op}-gives-wrong-value", {"effect": f"({op} (r) {t})", "valuation": {k: str(x) for k, x in val.items()},
                                                                   "expected": str(want), "observed": str(got)})
                break


def comparisons(ctx, rng, EPS, thorough, evaluate_expression, lib_tree, set_vals):
    dyadic_eps = is_dyadic(EPS)
    mags = [Fraction(0), Fraction(1), Fraction(2 ** 10), Fraction(2 ** 20), Fraction(-3, 4), Fraction(-(2 ** 20))]
    gaps = [Fraction(0), Fraction(1, 2), Fraction(1), Fraction(2), Fraction(3, 4), Fraction(5, 4), Fraction(10)]
    acts = [f"(:action c{i} :parameters () :precondition (and ({op} (x) (y))) :effect (and (ok)))" for i, op in enumerate(CMP_OPS)]
    dom = lib.parse_domain_text(DOMAIN_T.format(actions="\n".join(acts)))
    for m in mags:
        for g in gaps:
            for sign in (1, -1):
                x = m
                y = m + sign * g * EPS
                fx, fy = float(x), float(y)
                real_gap = abs(Fraction(fy) - Fraction(fx))  # what the floats actually are
                for i, op in enumerate(CMP_OPS):
                    # decisive?
                    margin = abs(real_gap - EPS)
                    if op in ("=", "<=", ">=") and margin != 0 and margin < 4 * Fraction(math.ulp(max(abs(fx), abs(fy), 1e-300))):
                        ctx.count("boundary_skipped")
                        continue
                    if op in ("=", "<=", ">=") and real_gap == EPS and not dyadic_eps:
                        ctx.count("boundary_skipped")
                        continue
                    within = real_gap <= EPS
                    lt, gt = Fraction(fx) < Fraction(fy), Fraction(fx) > Fraction(fy)
                    want = {"=": within, "<=": within or lt, ">=": within or gt, "<": lt, ">": gt}[op]
                    # direct
                    try:
                        node = lib_tree(f"({op} (x) (y))")
                        set_vals(node, {"x": Fraction(fx), "y": Fraction(fy)})
                        got = evaluate_expression(node)
                    except BaseException as e:
                        got = lib.exc_name(e)
                    ctx.count("compared:comparison")
                    if g <= 2:
                        ctx.nontrivial([op, str(m), str(g), sign, str(EPS)])
                    if got is not want:
                        ctx.violation(f"comparison:{op}-differs-from-tolerance-semantics",
                                      {"operator": op, "x": repr(fx), "y": repr(fy), "gap_in_tolerances": str(g), "EPSILON": str(EPS),
                                       "expected": want, "observed": got, "through": "evaluate_expression"})
                        continue
                    # pipeline
                    ptxt = sx.plain(["define", ["problem", "p"], [":domain", "num"], [":objects"],
                                     [":init", ["=", ["x"], repr(fx)], ["=", ["y"], repr(fy)], ["=", ["r"], "0"]], [":goal", ["and"]]])
                    try:
                        pr = lib.parse_problem_text(ptxt, dom)
                        got2 = lib.make_operator(dom, f"c{i}", [], pr.objects).is_applicable(lib.init_state(pr))
                    except BaseException as e:
                        got2 = lib.exc_name(e)
                    ctx.count("compared:comparison")
                    if got2 is not want:
                        ctx.violation(f"comparison:{op}-differs-from-tolerance-semantics",
                                      {"operator": op, "x": repr(fx), "y": repr(fy), "gap_in_tolerances": str(g), "EPSILON": str(EPS),
                                       "expected": want, "observed": got2, "through": "is_applicable"})

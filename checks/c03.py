"""C03 - applying an action yields exactly the PDDL successor state, whatever the internal order.

Monitor: Operator.apply(state) -> serialised successor re-read with the reference reader vs
refpddl.successor, under the natural iteration order of the library's hash sets and under injected
permutations of every set-valued collection of the schema and of the grounded operator (PermSet),
and (thorough) under several PYTHONHASHSEEDs."""
from fractions import Fraction

from vlib import sx, lib, model, gen, sched

RULE = ("actions with trivial/conjunctive preconditions and effects from the grammar add/delete, assign/increase/decrease "
        "with right-hand sides that read fluents written by other effects, when (literal / numeric / equality / and conditions), "
        "forall-when over types with subtypes; every model-applicable (action, call, state) is applied under the natural "
        "order and k injected iteration orders; a case = (action, call); distinct by action text + call; non-trivial when "
        "at least one conditional/universal effect was observed firing AND one not firing over the states tested, or a "
        "numeric right-hand side read a fluent written by the same action")
DECISIVE = ["compared"]
DECISIVE_EACH = ["compared:natural-order", "compared:injected-order"]
EXHAUSTIVE = "per (action, call): all assignments of the atoms the effect conditions can depend on, when <= 6/7 of them"
ASSUMPTIONS = ["refpddl.successor is the PDDL semantics (validated on shipped planner plans and against a set-algebraic STRIPS implementation)",
               "cases whose simultaneously firing effects are inconsistent, read undefined fluents or divide by zero are outside the quantifier and skipped",
               "PermSet is a behaviour-preserving subtype of set"]
SHARDS = {"quick": 16, "thorough": 16}


def plan(tier, seed):
    n = 16
    out = [(i, n, {}, {}) for i in range(n)]
    if tier == "thorough":
        for k in range(8):
            hs = (seed * 131 + 7 * k + 1) % 4294967295
            out.append((k, 8, {"PYTHONHASHSEED": hs}, {"hashseed_sweep": True}))
    return out


def diff_states(exp, got):
    ea, ef = exp
    ga, gf = got
    d = {}
    if set(ga) - set(ea):
        d["extra_atoms"] = sorted(set(ga) - set(ea))
    if set(ea) - set(ga):
        d["missing_atoms"] = sorted(set(ea) - set(ga))
    wrong = {}
    for k in set(ef) | set(gf):
        if k not in gf:
            wrong[" ".join(k)] = ("expected", str(ef[k]), "observed", "absent")
        elif k not in ef:
            wrong[" ".join(k)] = ("expected", "absent", "observed", str(gf[k]))
        elif ef[k] != gf[k]:
            if abs(float(ef[k]) - float(gf[k])) <= 1e-9 * max(1.0, abs(float(ef[k]))):
                continue
            wrong[" ".join(k)] = ("expected", str(ef[k]), "observed", str(gf[k]))
    if wrong:
        d["fluents"] = wrong
    return d


def effect_stats(wm, eff, st, b):
    """how many when/forall-when instances fire / do not fire in st"""
    fired = notfired = 0

    def go(e, b):
        nonlocal fired, notfired
        if not isinstance(e, list) or not e:
            return
        if e[0] == "and":
            for x in e[1:]:
                go(x, b)
        elif e[0] == "when":
            if model.holds(wm, e[1], st, b):
                fired += 1
            else:
                notfired += 1
        elif e[0] == "forall":
            vs = model.typed_list(e[1])
            from itertools import product
            for combo in product(*[wm.of_type(t) for _, t in vs]):
                b2 = dict(b)
                b2.update({v: o for (v, _), o in zip(vs, combo)})
                go(e[2], b2)

    go(eff, b)
    return fired, notfired


def rhs_reads_written(eff):
    written, reads = set(), set()

    def terms(e):
        if isinstance(e, list) and e:
            if e[0] in ("+", "-", "*", "/"):
                for x in e[1:]:
                    terms(x)
            else:
                reads.add(e[0])

    def go(e):
        if not isinstance(e, list) or not e:
            return
        if e[0] in ("assign", "increase", "decrease"):
            written.add(e[1][0])
            terms(e[2])
        else:
            for x in e[1:]:
                go(x)

    go(eff)
    return bool(written & reads)


def mech(d, tags):
    kinds = []
    if "extra_atoms" in d:
        kinds.append("extra-atoms")
    if "missing_atoms" in d:
        kinds.append("missing-atoms")
    if "fluents" in d:
        kinds.append("wrong-fluent-values")
    return "wrong-successor:" + "+".join(kinds)


def run_domain(ctx, rng, w, actions, thorough, n_orders):
    w.actions = [{"name": f"a{i}", "params": p, "pre": pre, "eff": eff} for i, (p, pre, eff) in enumerate(actions)]
    text = w.domain_text()
    dom_m = model.RefDomain.from_text(text)
    wm = model.World(dom_m, w.objects)
    try:
        dom = lib.parse_domain_text(text)
    except BaseException as e:
        ctx.count("refused:parse", len(actions))
        ctx.notes.setdefault("refused_parse_example", {"error": lib.exc_name(e), "domain": text[:1500]})
        return
    sched.set_salt(0)
    sf = lib.StateFactory(dom, w.name, w.objects)
    injected = False
    for i, (params, pre, eff) in enumerate(actions):
        act_m = dom_m.actions[f"a{i}"]
        calls = model.type_correct_calls(wm, act_m)
        if not calls:
            continue
        rng.shuffle(calls)
        tags = gen.features_of(eff)
        for call in calls[: (4 if thorough else 2)]:
            if not ctx.next_case():
                continue
            ctx.count("cases")
            b = model.binding(act_m, call)
            states, exhaustive = gen.covering_states(rng, wm, w, [(act_m.pre, b), (act_m.eff, b)],
                                                     max_exhaustive_bits=7 if thorough else 5,
                                                     n_random=12 if thorough else 6, n_valuations=2, n_boundary=1)
            if exhaustive:
                ctx.count("exhaustive_blocks")
            if not thorough and len(states) > 24:
                states = rng.sample(states, 24)
            fired_any = notfired_any = False
            first = True
            for st in states:
                try:
                    exp = model.successor(wm, act_m, call, st)
                except model.Inconsistent:
                    ctx.count("skipped_inconsistent_effects")
                    continue
                except model.Outside:
                    ctx.count("skipped_outside_quantifier")
                    continue
                if exp is None:
                    ctx.count("skipped_not_applicable")
                    continue
                if any(0 < x < Fraction(1, 1000) for x in model.cmp_margins(wm, act_m.pre, st, b) + model.cmp_margins(wm, act_m.eff, st, b)):
                    ctx.count("boundary_skipped")
                    continue
                fi, nf = effect_stats(wm, act_m.eff, st, b)
                fired_any |= fi > 0
                notfired_any |= nf > 0
                ctx.count("cond_effects_fired", fi)
                ctx.count("cond_effects_not_fired", nf)
                results = []
                orders = ["natural"] + list(range(1, n_orders + 1))
                bad = None
                for order in orders:
                    try:
                        s = sf.state(st, fresh=True)
                        op = lib.make_operator(dom, f"a{i}", call, sf.objects_table())
                        if order != "natural":
                            if not injected:
                                sched.permute(dom)
                                injected = True
                            sched.set_salt(order)
                            op.ground()
                            sched.permute(op)
                        got_state = op.apply(s)
                        got = lib.read_state(got_state)
                    except BaseException as e:
                        ctx.count("refused:apply")
                        ctx.notes.setdefault("refused_apply_example", {"error": lib.exc_name(e), "effect": sx.plain(eff), "call": list(call)})
                        got = None
                    finally:
                        sched.set_salt(0)
                    if got is None:
                        break
                    ctx.count("compared")
                    ctx.count("compared:natural-order" if order == "natural" else "compared:injected-order")
                    ctx.count("frame_atoms_checked", len(exp[0]))
                    if first:
                        ctx.feat(tags)
                        first = False
                    d = diff_states(exp, got)
                    results.append(model.canon_state(got))
                    if d:
                        bad = (order, d, got)
                        break
                    if order == "natural" and rng.random() < 0.5:
                        # two-step history: apply a second action to the successor object just returned
                        chain_step(ctx, rng, dom, dom_m, wm, sf, w, got_state, exp, text)
                if bad:
                    order, d, got = bad
                    m = mech(d, tags)
                    if order != "natural":
                        m += "{only-under-injected-order}"
                    ctx.violation(m, {"domain": text, "action": f"a{i}", "effect": sx.plain(eff), "precondition": sx.plain(pre),
                                      "call": list(call), "objects": w.objects, "state": model.show_state(st),
                                      "expected": model.show_state(exp), "observed": model.show_state(got), "diff": d,
                                      "effect_features": sorted(t for t in tags if "@" not in t), "iteration_order": order})
                    break
            if (fired_any and notfired_any) or rhs_reads_written(eff):
                ctx.nontrivial([sx.plain(eff), list(call), sorted(w.objects.items())])
            if ctx.case_index % 499 == 0 and states:
                ctx.sample({"effect": sx.plain(eff), "precondition": sx.plain(pre), "call": list(call), "objects": w.objects,
                            "states_tested": len(states)})
    for k, v in sched.observed_counts().items():
        ctx.seen("orders:" + k, None)  # placeholder so that the kind is listed
    for k, orders in sched.OBSERVED.items():
        for o in orders:
            ctx.seen("orders:" + k, o)


def chain_step(ctx, rng, dom, dom_m, wm, sf, w, lib_state, model_state, text):
    names = list(dom_m.actions)
    rng.shuffle(names)
    for an in names[:3]:
        act = dom_m.actions[an]
        calls = model.type_correct_calls(wm, act)
        rng.shuffle(calls)
        for call in calls[:4]:
            try:
                exp2 = model.successor(wm, act, call, model_state)
            except (model.Outside, model.Inconsistent):
                continue
            if exp2 is None:
                continue
            b = model.binding(act, call)
            if any(0 < x < Fraction(1, 1000) for x in model.cmp_margins(wm, act.pre, model_state, b) + model.cmp_margins(wm, act.eff, model_state, b)):
                continue
            try:
                got2 = lib.read_state(lib.make_operator(dom, an, call, sf.objects_table()).apply(lib_state))
            except BaseException:
                ctx.count("refused:apply-chain")
                return
            ctx.count("compared")
            ctx.count("compared:second-step")
            d = diff_states(exp2, got2)
            if d:
                ctx.violation(mech(d, set()) + "{second-step-on-a-returned-state}",
                              {"domain": text, "action": an, "call": list(call), "objects": w.objects, "state": model.show_state(model_state),
                               "expected": model.show_state(exp2), "observed": model.show_state(got2), "diff": d,
                               "note": "the pre-state is the State object returned by a previous apply()"})
            return


def gen_action(rng, w):
    params = gen.gen_params(rng, w)
    pre = ["and"]
    if rng.random() < 0.4:
        for _ in range(rng.randint(1, 2)):
            l = gen.gen_literal(rng, w, params)
            if l:
                pre.append(l)
    eff = gen.gen_effect(rng, w, params, when=True, forall=True, numeric=True, n=rng.randint(1, 5), use_constants=0.1)
    return params, pre, eff


def run(ctx):
    lib.assert_repo()
    rng = ctx.rng("c03")
    thorough = ctx.tier == "thorough"
    sweep = ctx.params.get("hashseed_sweep")
    n_domains = (10 if sweep else 30) if thorough else 7
    n_orders = (2 if sweep else 24) if thorough else 4
    for d in range(n_domains):
        if ctx.over_budget():
            break
        w = gen.gen_world(rng, max_arity=2)
        acts = [gen_action(rng, w) for _ in range(6 if thorough else 4)]
        acts = [a for a in acts if len(a[2]) > 1]
        if acts:
            run_domain(ctx, rng, w, acts, thorough, n_orders)

"""C10 - a serialized trajectory parses back to the same states and actions.

Monitor: exporter.export_to_file(triplets) -> TrajectoryParser(domain, problem | None)
.parse_trajectory(path[, agents]) -> Observation; components compared with the exporter's triplets
by the library's == and by the reference reader on the serialised text; chain; one component per
(joint) action; nop entries preserved.  Shipped trajectories: parse -> serialise -> parse is a
fixed point."""
import os
from pathlib import Path

from vlib import sx, lib, model, gen, env, probe, magen

RULE = ("trajectories produced from generated (domain, problem, plan) triples (single-agent, and joint-action with nop "
        "entries) incl. fluents with repeated arguments, zero-arity atoms, negative / fractional values, empty states; parsed "
        "back with the problem's object table and with objects deduced from the first state; plus the shipped trajectory "
        "files; a case = one (trajectory, parser mode); distinct by trajectory text + mode; non-trivial when the trajectory "
        "has >= 2 steps and >= 2 distinct states")
DECISIVE = ["compared:state", "compared:action"]
DECISIVE_EACH = ["compared:state", "compared:action", "compared:chain", "compared:joint"]
ASSUMPTIONS = ["the exporter's triplets are the reference for what was serialised (their conformance to the transition function is C04's business)"]
SHARDS = {"quick": 16, "thorough": 16}


def compare_observation(ctx, obs, exp_steps, wit, joint=False, agents=None):
    """exp_steps: list of (pre_state_obj, call or [calls], post_state_obj)"""
    ctx.count("compared:length")
    if len(obs.components) != len(exp_steps):
        ctx.violation("roundtrip:number-of-components-differs", dict(wit, expected=len(exp_steps), observed=len(obs.components)))
        return False
    prev = None
    for i, (c, (pre_o, call, post_o)) in enumerate(zip(obs.components, exp_steps)):
        for which, got_o, exp_o in (("pre", c.previous_state, pre_o), ("post", c.next_state, post_o)):
            ctx.count("compared:state")
            got, exp = lib.read_state(got_o), lib.read_state(exp_o)
            d = probe.state_diff(exp, got, exact=True)
            # the fluent *values* held by the two state objects (the serialised text goes through the code under test on
            # both sides, so a lossy number format would cancel out)
            ve = {k: float(f.value) for k, f in exp_o.state_fluents.items()}
            vg = {k: float(f.value) for k, f in got_o.state_fluents.items()}
            if not d and set(ve) == set(vg):
                bad = {k: (repr(ve[k]), repr(vg[k])) for k in ve if ve[k] != vg[k]}
                if bad:
                    d = {"fluent_values (exported, parsed back)": bad}
            try:
                eq = (got_o == exp_o)
            except BaseException as e:
                eq = lib.exc_name(e)
            if d or eq is not True:
                trig = any(model.has_repeat(k) and len(k) >= 4 for k in exp[1])
                emu_ok = trig and not probe.state_diff((exp[0], model.emulate_fluent_store(sorted(exp[1].items()))), got)
                if emu_ok:
                    ctx.known_finding("KF-REPEATED-ARGS", dict(wit, step=i, which=which, diff=d))
                else:
                    ctx.violation("roundtrip:state-differs" if d else "roundtrip:library-eq-says-different",
                                  dict(wit, step=i, which=which, diff=d, library_eq=eq, expected=model.show_state(exp), observed=model.show_state(got)))
                    return False
        ctx.count("compared:chain")
        if prev is not None and probe.state_diff(prev, lib.read_state(c.previous_state)):
            ctx.violation("roundtrip:observation-is-not-a-chain", dict(wit, step=i))
            return False
        prev = lib.read_state(c.next_state)
        ctx.count("compared:action")
        if joint:
            ctx.count("compared:joint")
            got_calls = [[a.name] + list(a.parameters) for a in c.grounded_joint_action.actions]
            if got_calls != call:
                ctx.violation("roundtrip:joint-action-differs", dict(wit, step=i, expected=call, observed=got_calls))
                return False
        else:
            got_call = [c.grounded_action_call.name] + list(c.grounded_action_call.parameters)
            if got_call != call:
                ctx.violation("roundtrip:action-call-differs", dict(wit, step=i, expected=call, observed=got_call))
                return False
    return True


def single_agent_cases(ctx, rng, thorough):
    from pddl_plus_parser.exporters import TrajectoryExporter
    n_worlds = 30 if thorough else 3
    for wi in range(n_worlds):
        awk_world = rng.random() < 0.4  # fluents with awkward values that no action reads or writes (float arithmetic is not C10's business)
        w = gen.gen_plan_world(rng, max_arity=3 if rng.random() < 0.4 else 2, numeric_actions=not awk_world)
        if not w.actions:
            continue
        dtext = w.domain_text()
        try:
            dom = lib.parse_domain_text(dtext)
        except BaseException:
            ctx.count("refused:domain")
            continue
        dom_m = model.RefDomain.from_text(dtext)
        wm = model.World(dom_m, w.objects)
        for pi in range(6 if thorough else 3):
            if not ctx.next_case():
                continue
            ctx.count("cases")
            st0 = gen.random_state(rng, w, density=rng.choice([0.0, 0.3, 0.6]))
            if rng.random() < 0.15:
                st0 = (frozenset(), {})
            st0 = gen.drop_colliding_fluents(st0)
            if awk_world and st0[1]:
                # values that are awkward to print: tiny, huge, long fractions, negative zero-ish
                from fractions import Fraction as F
                awkward = ["1e-05", "6.666666666666667e-05", "2.5e-11", "-3.3e-07", "123456789.125", "1e+16", "0.30000000000000004",
                           "-0.0001220703125", "5e-324", "0.1", "-1234.5678901234567"]
                fl2 = dict(st0[1])
                for k in rng.sample(sorted(fl2), min(len(fl2), 3)):
                    fl2[k] = F(float(rng.choice(awkward)))
                st0 = (st0[0], fl2)
                awk = True
            else:
                awk = False
            ptext = sx.plain(w.problem_ast(st0, rng=rng))
            try:
                prob = lib.parse_problem_text(ptext, dom)
            except BaseException:
                ctx.count("refused:problem")
                continue
            steps = gen.steered_walk(rng, wm, dom_m, st0, rng.choice([1, 2, 6, 15]), p_invalid=0.2)
            if not steps:
                continue
            lines = [f"({an} {' '.join(call)})" for an, call, _, _, _ in steps]
            ex = TrajectoryExporter(dom, allow_invalid_actions=False)
            try:
                trip = ex.parse_plan(prob, action_sequence=lines)
                path = Path(env.write_tmp("", suffix=".trajectory"))
                ex.export_to_file(trip, path)
            except BaseException as e:
                ctx.count("refused:export")
                ctx.notes.setdefault("refused_export", lib.exc_name(e))
                continue
            text = open(path).read()
            exp_steps = [(t.previous_state, sx.read(str(t.operator)), t.next_state) for t in trip]
            # the serialised text itself vs the states the model knows the trajectory goes through
            model_states = [st0] + [s[4] for s in steps]
            kf_text = False
            try:
                tree = sx.read(text)
                text_states = [model.read_state_ast(x) for x in tree[0::2]]
            except Exception as e:
                ctx.violation("serialise:exported-trajectory-unreadable", {"domain": dtext, "problem": ptext, "plan": lines, "trajectory": text[:2000], "observed": str(e)})
                continue
            for k, (ms, ts) in enumerate(zip(model_states, text_states)):
                ctx.count("compared:serialised-state")
                d = probe.state_diff(ms, ts)
                if d:
                    trig = any(model.has_repeat(k2) and len(k2) >= 4 for k2 in ms[1])
                    if trig and not probe.state_diff((ms[0], model.emulate_fluent_store(sorted(ms[1].items()))), ts):
                        kf_text = True
                    else:
                        ctx.violation("serialise:exported-state-differs-from-the-state-reached",
                                      {"domain": dtext, "problem": ptext, "plan": lines, "state_index": k, "diff": d, "trajectory": text[:2000]})
                        kf_text = None
                    break
            if kf_text:
                ctx.known_finding("KF-REPEATED-ARGS", {"domain": dtext, "problem": ptext, "plan": lines, "trajectory": text[:1500],
                                                       "note": "the exported text already carries the re-ordered fluent; parsing it back is not judged"})
                continue
            if kf_text is None:
                continue
            distinct_states = {model.canon_state(lib.read_state(t.next_state)) for t in trip}
            for mode in ("with-problem", "objects-deduced"):
                wit = {"domain": dtext, "problem": ptext, "plan": lines, "trajectory": text[:3000], "mode": mode}
                try:
                    parser = lib.TrajectoryParser(dom, prob if mode == "with-problem" else None)
                    obs = parser.parse_trajectory(path)
                except BaseException as e:
                    ctx.count("compared:state")
                    # an empty first state gives the no-problem mode nothing to deduce objects from: still must parse
                    ctx.violation("roundtrip:parse_trajectory-raises", dict(wit, observed=lib.exc_name(e)))
                    continue
                ctx.feat({mode})
                if len(trip) >= 2 and len(distinct_states) >= 2:
                    ctx.nontrivial([text, mode])
                compare_observation(ctx, obs, exp_steps, wit)
            if wi == 0 and pi == 0:
                ctx.sample({"trajectory": text[:1200], "steps": len(trip)})


SHIPPED = [
    ("lisp_parsers_tests/depot_numeric.pddl", "lisp_parsers_tests/pfile2.pddl", "lisp_parsers_tests/test_numeric_trajectory", None),
    ("lisp_parsers_tests/farmland.pddl", "lisp_parsers_tests/pfile10_10.pddl", "lisp_parsers_tests/pfile10_10.trajectory", None),
    ("models_tests/miconic_learned_domain.pddl", "models_tests/miconic_pfile_1-0.pddl", "models_tests/miconic_pfile_1-0.trajectory", None),
    ("exporters_tests/depot_numeric.pddl", "exporters_tests/pfile2.pddl", "exporters_tests/test_numeric_trajectory", None),
    ("exporters_tests/elevators_domain.pddl", "exporters_tests/elevators_p03.pddl", "exporters_tests/test_trajectory", None),
    ("lisp_parsers_tests/woodworking_combined_domain.pddl", "lisp_parsers_tests/woodworking_combined_problem.pddl",
     "lisp_parsers_tests/ma_woodworking_trajectory.trajectory",
     ["glazer0", "grinder0", "highspeed-saw0", "immersion-varnisher0", "planer0", "saw0", "spray-varnisher0"]),
    ("lisp_parsers_tests/logistics_combined_domain.pddl", None, "lisp_parsers_tests/ma_logistics_trajectory.trajectory",
     ["apn1", "apn2", "tru1", "tru2", "tru3", "tru4", "tru5"]),
    ("lisp_parsers_tests/starcraft_domain.pddl", None, "lisp_parsers_tests/starcraft_trajectory.trajectory",
     ["agent0", "agent1", "agent2", "agent3", "agent4"]),
]


def reserialize(obs, agents):
    parts = ["(" + obs.components[0].previous_state.serialize()]
    for c in obs.components:
        if agents is None:
            parts.append(f"(operator: {str(c.grounded_action_call)})\n")
        else:
            parts.append("(operators: " + " ".join(str(a) if a.name != "nop" else "(nop )" for a in c.grounded_joint_action.actions) + ")\n")
        parts.append(c.next_state.serialize())
    return "".join(parts) + ")"


def shipped(ctx):
    rp = os.path.join(env.repo_path(), "tests")
    for j, (d, p, t, agents) in enumerate(SHIPPED):
        if j % ctx.nshards != ctx.shard:
            continue
        if not ctx.next_case():
            continue
        ctx.count("cases")
        try:
            try:
                dom = lib.DomainParser(Path(os.path.join(rp, d))).parse_domain()
            except BaseException:
                # the trajectory parser only needs the vocabulary (the shipped tests parse this domain partially too)
                dom = lib.DomainParser(Path(os.path.join(rp, d)), partial_parsing=True).parse_domain()
            prob = lib.ProblemParser(Path(os.path.join(rp, p)), dom).parse_problem() if p else None
            obs1 = lib.TrajectoryParser(dom, prob).parse_trajectory(Path(os.path.join(rp, t)), agents)
        except BaseException as e:
            ctx.count("shipped_unparsable")
            ctx.notes.setdefault("shipped_unparsable", []).append([t, lib.exc_name(e)])
            continue
        if not obs1.components:
            continue
        wit = {"files": [d, p, t], "agents": agents}
        try:
            # the first state of a parsed trajectory is not flagged as :init; that flag is layout, not content
            text = reserialize(obs1, agents)
            path = Path(env.write_tmp(text, suffix=".trajectory"))
            obs2 = lib.TrajectoryParser(dom, prob).parse_trajectory(path, agents)
        except BaseException as e:
            ctx.count("compared:state")
            ctx.violation("roundtrip:reparse-of-reserialised-shipped-trajectory-raises", dict(wit, observed=lib.exc_name(e)))
            continue
        ctx.count("shipped_trajectories")
        ctx.nontrivial([t])
        if agents is None:
            exp = [(c.previous_state, [c.grounded_action_call.name] + list(c.grounded_action_call.parameters), c.next_state) for c in obs1.components]
            compare_observation(ctx, obs2, exp, wit)
        else:
            exp = [(c.previous_state, [[a.name] + list(a.parameters) for a in c.grounded_joint_action.actions], c.next_state) for c in obs1.components]
            compare_observation(ctx, obs2, exp, wit, joint=True, agents=agents)


def run(ctx):
    lib.assert_repo()
    rng = ctx.rng("c10")
    thorough = ctx.tier == "thorough"
    single_agent_cases(ctx, rng, thorough)
    magen.joint_trajectory_cases(ctx, rng, thorough, compare_observation)
    shipped(ctx)

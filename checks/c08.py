"""C08 - exporting a domain and parsing it back preserves vocabulary and behaviour.

Monitor: DomainExporter().extract_domain(d) -> text -> DomainParser -> d' (and once more -> d'');
vocabulary and behaviour of d' (d'') compared with d's and with the reference reading of the source,
under injected iteration orders of the library's sets before export and (thorough) several hash seeds."""
import os
from pathlib import Path

from vlib import sx, lib, model, gen, probe, sched, env
from checks import c01

RULE = ("accepted domains of C01's supported grammar (numeric constants with <= 2 decimals, the exporter's stated precision "
        "for preconditions) and every shipped domain file; exported under the natural and under injected iteration orders; a "
        "case = one (domain, order); distinct by source text + order; non-trivial when at least one action was compared on "
        "both an applicable and an inapplicable state in the original and in the re-parsed domain")
DECISIVE = ["compared:vocabulary", "compared:behaviour"]
DECISIVE_EACH = ["compared:vocabulary", "compared:behaviour", "compared:second-round"]
ASSUMPTIONS = ["behaviour of the original domain object is C01's business: probes on which the original itself is unfaithful are skipped",
               "numeric constants are generated with <= 2 decimals; PermSet is a behaviour-preserving set subtype"]
SHARDS = {"quick": 16, "thorough": 16}


def plan(tier, seed):
    out = [(i, 16, {}, {}) for i in range(16)]
    if tier == "thorough":
        for k in range(6):
            out.append((k, 6, {"PYTHONHASHSEED": (seed * 977 + 31 * k + 5) % 4294967295}, {"hashseed_sweep": True}))
    return out


def export_and_reparse(dom):
    from pddl_plus_parser.exporters import DomainExporter
    text = DomainExporter().extract_domain(dom)
    return text, lib.parse_domain_text(text)


def text_equivalence(ctx, rng, w, dm, text1, wit, thorough):
    """second, library-free channel: the exported text, read by the reference reader, must mean what the source means.
    Both readings are evaluated by the reference semantics on covering states that include, for every numeric
    comparison of either text, valuations a hair on either side of its threshold - the states in which a constant
    that lost decimals or a condition that was rewritten changes the answer.  (The library's own re-parse of the
    text is judged by the behaviour probes below and by C01.)"""
    try:
        dm1 = model.RefDomain.from_text(text1)
    except BaseException as e:
        ctx.count("exported_text_not_read_by_reference_reader")
        ctx.notes.setdefault("reference_reader_refused_export", {"error": lib.exc_name(e), "exported": text1[:1500]})
        return
    wm0, wm1 = model.World(dm, w.objects), model.World(dm1, w.objects)
    for aname, act in dm.actions.items():
        if aname not in dm1.actions:
            continue  # vocabulary comparison reports it
        act1 = dm1.actions[aname]
        try:
            calls = model.type_correct_calls(wm0, act)
        except model.ModelError:
            continue
        rng.shuffle(calls)
        for call in calls[:3 if thorough else 2]:
            b = model.binding(act, call)
            try:
                b1 = model.binding(act1, call)
                states, _ = gen.covering_states(rng, wm0, w, [(act.pre, b), (act.eff, b)], max_exhaustive_bits=4, n_random=8,
                                                n_valuations=2, n_boundary=3)
                more = gen.boundary_valuations(rng, wm1, [(act1.pre, b1), (act1.eff, b1)], states[0][1], 3) if states else []
            except (model.ModelError, KeyError, IndexError, TypeError, ValueError):
                continue
            states = states[:24] + [(states[0][0], v) for v in more] + [(states[-1][0], v) for v in more]
            for st in states:
                e0 = probe.model_outcome(wm0, dm, aname, call, st)
                if e0[0] != "app":
                    continue
                e1 = probe.model_outcome(wm1, dm1, aname, call, st)
                if e1[0] == "outside":
                    continue
                ctx.count("compared:text-meaning")
                bad = None
                if e1[0] != "app":
                    bad = {"kind": "exported-text-malformed-for-the-reference-semantics", "detail": e1[1]}
                else:
                    bad = probe.Probe.compare(e0, e1)
                if bad:
                    ctx.violation(f"roundtrip:exported-text-means-something-else:{bad['kind']}",
                                  dict(wit, action=aname, call=list(call), state=model.show_state(st), discrepancy=bad,
                                       source_precondition=sx.plain(act.pre or []), exported_precondition=sx.plain(act1.pre or []),
                                       source_effect=sx.plain(act.eff or []), exported_effect=sx.plain(act1.eff or [])))
                    return


def judge_roundtrip(ctx, rng, w, src_text, order, n_calls, thorough):
    dm = model.RefDomain.from_text(src_text)
    try:
        dom = lib.parse_domain_text(src_text)
    except BaseException:
        ctx.count("refused:source")
        return None
    wit = {"source": src_text, "objects": w.objects if w else None, "iteration_order": order}
    if order != "natural":
        sched.permute(dom)
        sched.set_salt(order)
    try:
        try:
            text1, d1 = export_and_reparse(dom)
        finally:
            sched.set_salt(0)
    except BaseException as e:
        ctx.count("compared:vocabulary")
        ctx.violation("roundtrip:export-or-reparse-raises", dict(wit, observed=lib.exc_name(e)))
        return None
    wit["exported"] = text1[:4000]
    # vocabulary: d1 vs d vs source
    ctx.count("compared:vocabulary")
    v0, v1, vm = c01.vocabulary_of_lib(dom), c01.vocabulary_of_lib(d1), c01.vocabulary_of_model(dm)
    dv = c01.compare_vocab(v1, vm)
    if dv and not c01.compare_vocab(v0, vm):
        ctx.violation("roundtrip:vocabulary-differs", dict(wit, differences=dv[:6]))
        return None
    # second round
    try:
        text2, d2 = export_and_reparse(d1)
        ctx.count("compared:second-round")
        dv2 = c01.compare_vocab(c01.vocabulary_of_lib(d2), c01.vocabulary_of_lib(d1))
        if dv2:
            ctx.violation("roundtrip:second-round-changes-vocabulary", dict(wit, differences=dv2[:6], second_export=text2[:2000]))
    except BaseException as e:
        ctx.count("compared:second-round")
        ctx.violation("roundtrip:second-export-or-reparse-raises", dict(wit, observed=lib.exc_name(e)))
        d2 = None
    if w is None:
        return "vocab-only"
    text_equivalence(ctx, rng, w, dm, text1, wit, thorough)
    # behaviour
    p0 = probe.Probe(dom, dm, w)
    p1 = probe.Probe(d1, dm, w)
    p2 = probe.Probe(d2, dm, w) if d2 is not None else None
    both = False
    for aname in dm.actions:
        seen = set()
        done = False
        for call, states in p0.cases(rng, aname, n_calls=n_calls, bits=6 if thorough else 5, max_states=20 if thorough else 10):
            for st in states:
                exp = p0.expected(aname, call, st)
                if exp[0] != "app":
                    ctx.count("skipped_outside_quantifier")
                    continue
                o0 = p0.observe(aname, call, st)
                if o0[0] == "raised" or p0.compare(exp, o0):
                    ctx.count("original_unfaithful_or_refusing")
                    continue
                for label, pr in (("reparsed", p1), ("reparsed-twice", p2)):
                    if pr is None:
                        continue
                    o1 = pr.observe(aname, call, st)
                    ctx.count("compared:behaviour")
                    if label == "reparsed-twice":
                        ctx.count("compared:second-round")
                    if o1[0] == "raised":
                        ctx.violation(f"roundtrip:{label}-domain-raises-where-original-answers",
                                      dict(wit, action=aname, call=list(call), state=model.show_state(st), observed=o1[1:],
                                           precondition=sx.plain(dm.actions[aname].pre or []), effect=sx.plain(dm.actions[aname].eff or [])))
                        done = True
                        break
                    d = pr.compare(exp, o1)
                    if d:
                        ctx.violation(f"roundtrip:{label}-domain-behaves-differently:{d['kind']}",
                                      dict(wit, action=aname, call=list(call), state=model.show_state(st), discrepancy=d,
                                           precondition=sx.plain(dm.actions[aname].pre or []), effect=sx.plain(dm.actions[aname].eff or [])))
                        done = True
                        break
                if done:
                    break
                seen.add(exp[1])
            if done:
                break
        if len(seen) == 2:
            both = True
    return "both" if both else "compared"


def gen_source(rng):
    w = c01.gen_case(rng, False)
    # statically consistent effects only (C03's quantifier) and <= 2 decimals (grid is k/4 -> fine)
    w.actions = [a for a in w.actions if gen.statically_consistent(a["eff"])]
    if not w.actions:
        return None
    return w


def run(ctx):
    lib.assert_repo()
    rng = ctx.rng("c08")
    thorough = ctx.tier == "thorough"
    sweep = ctx.params.get("hashseed_sweep")
    n = (25 if sweep else 110) if thorough else 14
    for i in range(n):
        if ctx.over_budget():
            break
        w = gen_source(rng)
        if w is None:
            continue
        src = w.domain_text(param_style=rng.choice(["single", "grouped"]))
        for order in (["natural", 1, 2] if thorough else ["natural", 1]):
            if not ctx.next_case():
                continue
            ctx.count("cases")
            r = judge_roundtrip(ctx, rng, w, src, order, n_calls=3 if thorough else 2, thorough=thorough)
            if r:
                feats = set()
                for a in w.actions:
                    feats |= {f for f in gen.features_of(a["pre"]) | gen.features_of(a["eff"]) if "@" not in f}
                ctx.feat(feats | {f"order:{'natural' if order == 'natural' else 'injected'}"})
            if r == "both":
                ctx.nontrivial([src, order])
        if i == 0:
            ctx.sample({"source": src[:1500]})
    for k, orders in sched.OBSERVED.items():
        for o in orders:
            ctx.seen("orders:" + k, o)
    if not sweep:
        shipped(ctx, rng)


def shipped(ctx, rng):
    root = os.path.join(env.repo_path(), "tests")
    files = []
    for d, _, fs in os.walk(root):
        for f in fs:
            if f.endswith(".pddl"):
                files.append(os.path.join(d, f))
    for j, fp in enumerate(sorted(files)):
        if j % ctx.nshards != ctx.shard:
            continue
        try:
            text = open(fp, errors="replace").read()
            ast = sx.read(text)
            if not any(isinstance(s, list) and s and s[0] == "domain" for s in ast[1:]):
                continue
            model.RefDomain.from_ast(ast)
        except Exception:
            continue
        if not ctx.next_case():
            continue
        ctx.count("cases")
        ctx.count("shipped_domains")
        r = judge_roundtrip(ctx, rng, None, text, "natural", 0, False)
        if r:
            ctx.nontrivial(fp)

"""C05 - problem text is parsed faithfully and ill-formed facts are rejected.

Monitor: ProblemParser(path, domain).parse_problem() -> public fields of the Problem vs the
generator's ground truth (cross-checked by the reference reading of the same text); every valid text
must be accepted and equal, every single-point corruption must raise."""
from fractions import Fraction

from vlib import sx, lib, model, gen

RULE = ("valid problem texts over generated worlds (typed / grouped / untyped-tail object lists, objects of subtypes, domain "
        "constants as arguments, repeated arguments in facts and fluents of arity <= 3, zero-arity atoms and fluents, numerals "
        "7 -2.50 .5 1e3 -0.125, empty :init, empty goal, numeric goals) and, for each, single-point corruptions (wrong type / "
        "arity / undeclared predicate, function or object / other domain name, applied to a fact, a fluent, a goal literal and a "
        "numeric goal); a case = one problem text; distinct by text; non-trivial when the text has >= 1 fact, >= 1 fluent and "
        ">= 1 goal, or is a corruption")
DECISIVE = ["compared:valid", "compared:corrupt"]
DECISIVE_EACH = ["compared:valid", "compared:corrupt"]
ASSUMPTIONS = ["generator AST = ground truth (the reference reader must agree with it, else the case is a harness error)",
               "the accept/reject boundary of the type check is the subtype closure of the generated type tree"]
SHARDS = {"quick": 16, "thorough": 16}

NUMERALS = ["7", "-2.50", ".5", "1e3", "-0.125", "0", "3.25", "-4", "0.0625", "12.5", "1e-05", "6.666666666666667e-05",
            "0.30000000000000004", "-3.3e-07", "123456789.125"]


def observe_problem(pr):
    objs = {n: o.type.name for n, o in pr.objects.items()}
    atoms = set()
    for group in pr.initial_state_predicates.values():
        for gp in group:
            atoms.add((gp.name,) + tuple(gp.grounded_objects))
    fl = {}
    dup = []
    for f in pr.initial_state_fluents.values():
        t = sx.read(f.state_representation)
        k = tuple(t[1])
        if k in fl:
            dup.append(k)
        # the value is read from the object, not from its printed form (which goes through the code under test on both
        # sides of a round trip and would cancel a lossy number format out); the printed numeral must denote it too
        fl[k] = Fraction(float(f.value))
        if float(model.to_frac(t[2])) != float(f.value):
            dup.append(("printed-value-differs", k, t[2], repr(f.value)))
    goals = [(bool(g.is_positive), (g.name,) + tuple(g.grounded_objects)) for g in pr.goal_state_predicates]
    # observed at 12 decimals: the default print precision (4) would hide what the parsed object actually holds
    ngoals = sorted(repr(model.canon_expr(sx.read(t.to_pddl(decimal_digits=12)))) for t in pr.goal_state_fluents)
    return {"name": pr.name, "objects": objs, "atoms": atoms, "fluents": fl, "goals": goals, "numeric_goals": ngoals, "dup": dup}


def expected_problem(w, name, objects, atoms, fluents, goal):
    goals, ngoals = [], []
    for g in goal[1:]:
        if g[0] == "not":
            goals.append((False, tuple(g[1])))
        elif g[0] in model.CMP:
            ngoals.append(repr(model.canon_expr(g)))
        else:
            goals.append((True, tuple(g)))
    return {"name": name, "objects": dict(objects), "atoms": set(atoms), "fluents": dict(fluents), "goals": goals,
            "numeric_goals": sorted(ngoals)}


def diff_problem(exp, obs):
    d = []
    if obs["name"] != exp["name"]:
        d.append(f"name {obs['name']} != {exp['name']}")
    if obs["objects"] != exp["objects"]:
        missing = set(exp["objects"]) - set(obs["objects"])
        extra = set(obs["objects"]) - set(exp["objects"])
        wrong = {k: (obs["objects"][k], exp["objects"][k]) for k in set(exp["objects"]) & set(obs["objects"]) if obs["objects"][k] != exp["objects"][k]}
        d.append(f"objects: missing={sorted(missing)} extra={sorted(extra)} wrong_type={wrong}")
    if obs["atoms"] != exp["atoms"]:
        d.append(f"init facts: missing={sorted(exp['atoms'] - obs['atoms'])} extra={sorted(obs['atoms'] - exp['atoms'])}")
    if obs["fluents"] != exp["fluents"]:
        ks = set(exp["fluents"]) | set(obs["fluents"])
        bad = {" ".join(k): (str(exp["fluents"].get(k)), str(obs["fluents"].get(k))) for k in ks if exp["fluents"].get(k) != obs["fluents"].get(k)}
        d.append(f"fluents (expected, observed): {bad}")
    if sorted(obs["goals"]) != sorted(exp["goals"]):
        d.append(f"goal literals: expected={sorted(exp['goals'])} observed={sorted(obs['goals'])}")
    if obs["numeric_goals"] != exp["numeric_goals"]:
        d.append(f"numeric goals: expected={exp['numeric_goals']} observed={obs['numeric_goals']}")
    return d


def classify(d, exp):
    """stable mechanism names"""
    out = []
    for x in d:
        if x.startswith("objects"):
            out.append("objects-differ")
        elif x.startswith("init facts"):
            out.append("init-facts-differ")
        elif x.startswith("fluents"):
            out.append("fluents-differ")
        elif x.startswith("goal"):
            out.append("goal-literals-differ")
        elif x.startswith("numeric"):
            out.append("numeric-goals-differ")
        else:
            out.append("name-differs")
    return "+".join(sorted(set(out)))


def collapse_terms(e, w):
    """emulation: fluent terms lose repeated arguments (name-keyed signature) when printed with to_pddl"""
    if isinstance(e, list):
        if e and e[0] in w.funcs:
            return [e[0]] + model.collapse_args(e[1:])
        return [collapse_terms(x, w) for x in e]
    return e


def term_has_repeat(e, w):
    if isinstance(e, list):
        if e and e[0] in w.funcs:
            return len(set(e[1:])) < len(e[1:])
        return any(term_has_repeat(x, w) for x in e)
    return False


def gen_problem(rng, w):
    """ground truth pieces of a valid problem"""
    atoms_all = gen.ground_atoms(w)
    fl_all = gen.ground_fluents(w)
    dens = rng.choice([0.0, 0.2, 0.5])
    atoms = {a for a in atoms_all if rng.random() < dens}
    fluents = {}
    for k in fl_all:
        if rng.random() < (0.7 if dens else 0.0):
            fluents[k] = Fraction(float(model.to_frac(rng.choice(NUMERALS))))
    goal = ["and"]
    for a in rng.sample(atoms_all, min(len(atoms_all), rng.randint(0, 3))):
        goal.append(list(a))
    for k in rng.sample(fl_all, min(len(fl_all), rng.randint(0, 2))):
        rhs = rng.choice(NUMERALS[:5] + [None])
        if rhs is None and len(fl_all) > 1:
            k2 = rng.choice(fl_all)
            rhs_t = ["+", list(k2), "1"]
        else:
            rhs_t = rhs or "2"
        goal.append([rng.choice([">=", "<=", ">", "<", "="]), list(k), rhs_t])
    return atoms, fluents, goal


def problem_text(w, name, dom_name, objects_items, atoms, fluents, goal, rng, numerals=None):
    init = [list(a) for a in sorted(atoms)]
    for k, v in sorted(fluents.items()):
        lit = numerals.get(k) if numerals else None
        init.append(["=", list(k), lit or gen.frac_str(v)])
    rng.shuffle(init)
    return ["define", ["problem", name], [":domain", dom_name], [":objects"] + objects_items, [":init"] + init, [":goal", goal]]


def corruptions(rng, w, atoms, fluents, goal):
    """yields (kind, target, mutate(ast-pieces) -> (atoms, fluents, goal, extra)) as new pieces"""
    objs = dict(w.objects)
    allobj = dict(objs)
    allobj.update(w.constants)

    def bad_arg_for(sig_t):
        c = [o for o, t in allobj.items() if not w.subtype(t, sig_t)]
        return rng.choice(c) if c else None

    out = []
    # facts
    facts = [a for a in atoms if len(a) > 1]
    if facts:
        a = rng.choice(sorted(facts))
        sig = w.preds[a[0]]
        i = rng.randrange(len(sig))
        b = bad_arg_for(sig[i][1])
        if b:
            na = a[:1 + i] + (b,) + a[2 + i:]
            out.append(("wrong-type", "fact", (atoms - {a}) | {na}, fluents, goal))
        out.append(("wrong-arity", "fact", (atoms - {a}) | {a + (a[1],)}, fluents, goal))
        out.append(("wrong-arity", "fact", (atoms - {a}) | {a[:-1]}, fluents, goal))
        out.append(("wrong-arity", "fact", (atoms - {a}) | {a[:1]}, fluents, goal))   # no argument at all
        out.append(("undeclared-object", "fact", (atoms - {a}) | {a[:-1] + ("nobody",)}, fluents, goal))
    if atoms:
        a = rng.choice(sorted(atoms))
        out.append(("undeclared-predicate", "fact", (atoms - {a}) | {("ghost",) + a[1:]}, fluents, goal))
    fls = [k for k in fluents if len(k) > 1]
    if fls:
        k = rng.choice(sorted(fls))
        sig = w.funcs[k[0]]
        i = rng.randrange(len(sig))
        b = bad_arg_for(sig[i][1])
        v = fluents[k]
        rest = {x: y for x, y in fluents.items() if x != k}
        if b:
            out.append(("wrong-type", "fluent", atoms, dict(rest, **{}) | {k[:1 + i] + (b,) + k[2 + i:]: v}, goal))
        out.append(("wrong-arity", "fluent", atoms, rest | {k + (k[1],): v}, goal))
        out.append(("wrong-arity", "fluent", atoms, rest | {k[:-1]: v}, goal))
        out.append(("undeclared-object", "fluent", atoms, rest | {k[:-1] + ("nobody",): v}, goal))
    if fluents:
        k = rng.choice(sorted(fluents))
        rest = {x: y for x, y in fluents.items() if x != k}
        out.append(("undeclared-function", "fluent", atoms, rest | {("ghostf",) + k[1:]: fluents[k]}, goal))
    glits = [g for g in goal[1:] if g[0] in w.preds and len(g) > 1]
    if glits:
        g = rng.choice(glits)
        sig = w.preds[g[0]]
        i = rng.randrange(len(sig))
        b = bad_arg_for(sig[i][1])
        others = [x for x in goal[1:] if x is not g]
        if b:
            out.append(("wrong-type", "goal-literal", atoms, fluents, ["and"] + others + [g[:1 + i] + [b] + g[2 + i:]]))
        out.append(("wrong-arity", "goal-literal", atoms, fluents, ["and"] + others + [g + [g[1]]]))
        out.append(("wrong-arity", "goal-literal", atoms, fluents, ["and"] + others + [g[:1]]))   # no argument at all
        out.append(("undeclared-object", "goal-literal", atoms, fluents, ["and"] + others + [g[:-1] + ["nobody"]]))
        out.append(("undeclared-predicate", "goal-literal", atoms, fluents, ["and"] + others + [["ghost"] + g[1:]]))
    gnums = [g for g in goal[1:] if g[0] in model.CMP and len(g[1]) > 1]
    if gnums:
        g = rng.choice(gnums)
        others = [x for x in goal[1:] if x is not g]
        f = g[1]
        sig = w.funcs[f[0]]
        i = rng.randrange(len(sig))
        b = bad_arg_for(sig[i][1])
        if b:
            out.append(("wrong-type", "numeric-goal", atoms, fluents, ["and"] + others + [[g[0], f[:1 + i] + [b] + f[2 + i:], g[2]]]))
        out.append(("wrong-arity", "numeric-goal", atoms, fluents, ["and"] + others + [[g[0], f + [f[1]], g[2]]]))
        out.append(("undeclared-object", "numeric-goal", atoms, fluents, ["and"] + others + [[g[0], f[:-1] + ["nobody"], g[2]]]))
        out.append(("undeclared-function", "numeric-goal", atoms, fluents, ["and"] + others + [[g[0], ["ghostf"] + f[1:], g[2]]]))
        # the ill-formed fluent is not the first one of its condition: behind a well-formed one, on the other side or in a sum
        bads = [f + [f[1]], f[:-1] + ["nobody"], ["ghostf"] + f[1:]] + ([f[:1 + i] + [b] + f[2 + i:]] if b else [])
        kinds = ["wrong-arity", "undeclared-object", "undeclared-function"] + (["wrong-type"] if b else [])
        j = rng.randrange(len(bads))
        shape = rng.choice([[g[0], f, bads[j]], [g[0], ["+", f, bads[j]], g[2]], [g[0], ["-", ["*", f, "2"], bads[j]], g[2]]])
        out.append((kinds[j], "numeric-goal-later-fluent", atoms, fluents, ["and"] + others + [shape]))
    return out


def run(ctx):
    lib.assert_repo()
    rng = ctx.rng("c05")
    thorough = ctx.tier == "thorough"
    n_worlds = 70 if thorough else 10
    per_world = 9 if thorough else 4
    for wi in range(n_worlds):
        w = gen.gen_world(rng, max_arity=3, n_objs=rng.randint(3, 5), n_funcs=rng.randint(1, 3))
        if rng.random() < 0.3:
            # an object typed 'object' so that untyped tails are possible
            w.objects["zz"] = "object"
        text_d = w.domain_text()
        try:
            dom = lib.parse_domain_text(text_d)
        except BaseException as e:
            ctx.count("refused:domain")
            continue
        for pi in range(per_world):
            if not ctx.next_case():
                continue
            ctx.count("cases")
            atoms, fluents, goal = gen_problem(rng, w)
            style = rng.choice(["single", "grouped", "untyped_tail"])
            pairs = list(w.objects.items())
            rng.shuffle(pairs)
            if style == "untyped_tail":
                pairs.sort(key=lambda p: p[1] == "object")
            items = gen.W.typed_items(pairs, style)
            numerals = {}
            for k in fluents:
                cands = [n for n in NUMERALS if Fraction(float(model.to_frac(n))) == fluents[k]]
                if cands:
                    numerals[k] = rng.choice(cands)
            name = rng.choice(["prob", "p-01", "pfile_7"])
            ast = problem_text(w, name, w.name, items, atoms, fluents, goal, rng, numerals)
            text = sx.render(ast, rng, hostile=rng.choice([0, 0, 0.4]), upper=rng.choice([0, 0, 0.5]))
            exp = expected_problem(w, name, w.objects, atoms, fluents, goal)
            # generator vs reference reader
            rp = model.RefProblem.from_text(text)
            if rp.objects != exp["objects"] or rp.atoms != exp["atoms"] or \
                    {k: float(v) for k, v in rp.fluents.items()} != {k: float(v) for k, v in exp["fluents"].items()}:
                ctx.violation("harness:generator-vs-reference-reader", {"text": text})
                continue
            feats = {"objects:" + style}
            if any(len(set(a[1:])) < len(a[1:]) for a in atoms):
                feats.add("fact:repeated-argument")
            if any(len(set(k[1:])) < len(k[1:]) for k in fluents):
                feats.add("fluent:repeated-argument")
            if any(len(k) == 4 and k[1] == k[3] and k[1] != k[2] for k in fluents):
                feats.add("fluent:non-adjacent-repeat")
            if any(x in w.constants for a in atoms for x in a[1:]):
                feats.add("constant-argument")
            if any(len(a) == 1 for a in atoms) or any(len(k) == 1 for k in fluents):
                feats.add("zero-arity")
            if not atoms and not fluents:
                feats.add("empty-init")
            if len(goal) == 1:
                feats.add("empty-goal")
            if any(g[0] in model.CMP for g in goal[1:]):
                feats.add("numeric-goal")
            wit = {"domain": text_d, "problem": text, "features": sorted(feats)}
            try:
                pr = lib.parse_problem_text(text, dom)
                obs = observe_problem(pr)
            except BaseException as e:
                ctx.count("compared:valid")
                mech = "valid-problem-rejected"
                if "objects:untyped_tail" in feats and any(t == "object" for t in w.objects.values()):
                    mech += "[untyped-object-tail]"
                ctx.violation(mech, dict(wit, observed=lib.exc_name(e)))
                continue
            ctx.count("compared:valid")
            ctx.feat(feats)
            if atoms and fluents and len(goal) > 1:
                ctx.nontrivial(text)
            d = diff_problem(exp, obs)
            if obs["dup"]:
                d.append(f"fluents listed twice after parsing: {obs['dup']}")
            if d:
                # known finding KF-REPEATED-ARGS: attribute only if the observation equals the defect emulation
                init_items = [(tuple(f[1]), Fraction(float(model.to_frac(f[2])))) for f in ast[4][1:] if f[0] == "=" and isinstance(f[1], list)]
                emu = dict(exp)
                emu["fluents"] = model.emulate_fluent_store(init_items)
                emu["numeric_goals"] = sorted(repr(model.canon_expr(collapse_terms(g, w))) for g in goal[1:] if g[0] in model.CMP)
                trig = any(model.has_repeat(k) for k in fluents) or any(term_has_repeat(g, w) for g in goal[1:] if g[0] in model.CMP)
                if trig and not diff_problem(emu, obs):
                    ctx.known_finding("KF-REPEATED-ARGS", dict(wit, differences=d[:3]))
                else:
                    ctx.violation("parsed-problem-differs:" + classify(d, exp), dict(wit, differences=d[:5]))
            if pi == 0 and wi == 0:
                ctx.sample({"problem": text[:1200], "features": sorted(feats)})
            # ---- corruptions ------------------------------------------------------------
            cs = corruptions(rng, w, atoms, fluents, goal)
            cs.append(("other-domain-name", "header", atoms, fluents, goal))
            # an object that only an *earlier* problem (parsed against the same Domain object) declared
            used = sorted({x for a in atoms for x in a[1:] if x in w.objects} | {x for k in fluents for x in k[1:] if x in w.objects})
            dropped = rng.choice(used) if used else None
            if not thorough:
                cs = rng.sample(cs, min(len(cs), 8))
            if dropped is not None:
                cs.append(("object-declared-only-in-an-earlier-problem", "objects", atoms, fluents, ["and"]))
            for kind, target, a2, f2, g2 in cs:
                items2 = items
                if kind == "object-declared-only-in-an-earlier-problem":
                    items2 = gen.W.typed_items([(o, t) for o, t in pairs if o != dropped], "single")
                ast2 = problem_text(w, name, w.name if kind != "other-domain-name" else "elsewhere", items2, a2, f2, g2, rng)
                t2 = sx.plain(ast2)
                try:
                    lib.parse_problem_text(t2, dom)
                    raised = False
                except BaseException:
                    raised = True
                ctx.count("compared:corrupt")
                ctx.feat({f"corrupt:{kind}@{target}"})
                ctx.nontrivial(t2)
                if not raised:
                    ctx.violation(f"ill-formed-accepted:{kind}@{target}", {"domain": text_d, "problem": t2, "corruption": kind, "target": target})

"""C02 - an action is reported applicable exactly when its precondition is true.

Monitor: Operator(action, domain, call, problem objects).is_applicable(state) for every call of the
workload vs refpddl.holds on the same source text and an independently known state.  A wrong boolean
is a violation; an exception is a refusal (counted, tolerated; a tree that refuses everything is
inconclusive)."""
import itertools
from fractions import Fraction

from vlib import sx, lib, model, gen

RULE = ("preconditions of the supported fragment (random to depth 3; in the thorough tier a bounded-exhaustive sweep of "
        "(and c1 [c2]) with ci in leaf | (or l l) | (and l l) | forall bodies over a 10-leaf alphabet) evaluated for every "
        "type-correct call (incl. repeated objects and constants) on covering states (all 2^k assignments of the atoms "
        "the formula instance can depend on for k<=7/8, else random + single-atom flips; x numeric valuations); a case = "
        "(formula, call); distinct by formula+call; non-trivial when the model's answer took both truth values over the "
        "states tested for that case")
DECISIVE = ["compared"]
DECISIVE_EACH = ["compared:true", "compared:false"]
EXHAUSTIVE = "per (formula, call): all assignments of the relevant ground atoms when there are <= 7 of them (<= 8 in the thorough sweep of the small vocabulary)"
ASSUMPTIONS = ["refpddl.holds is the PDDL semantics (validated on shipped planner plans and by a second evaluation strategy)",
               "states define every fluent; numeric comparisons stay >= 1/64 away from equality unless exactly equal",
               "constants never inhabit a quantified type"]
SHARDS = {"quick": 16, "thorough": 16}
EPS_SLACK = Fraction(1, 1000)


def mech_tags(pre):
    f = gen.features_of(pre)
    tags = []
    for t in ("forall", "or", "obj=", "obj!=", "num=", "<", "<=", ">", ">="):
        if t in f:
            tags.append(t)
    return tags


def run_domain(ctx, rng, w, actions, max_calls, bits, thorough):
    """actions: list of (params, pre).  One domain text, many monitored is_applicable calls."""
    w.actions = [{"name": f"a{i}", "params": params, "pre": pre, "eff": ["and"]} for i, (params, pre) in enumerate(actions)]
    text = w.domain_text()
    dom_m = model.RefDomain.from_text(text)
    wm = model.World(dom_m, w.objects)
    try:
        dom = lib.parse_domain_text(text)
    except BaseException as e:
        ctx.count("refused:parse", len(actions))
        ctx.notes.setdefault("refused_parse_example", {"error": lib.exc_name(e), "domain": text[:1500]})
        return
    sf = lib.StateFactory(dom, w.name, w.objects)
    for i, (params, pre) in enumerate(actions):
        act_m = dom_m.actions[f"a{i}"]
        calls = model.type_correct_calls(wm, act_m)
        if not calls:
            ctx.count("no_type_correct_call")
            continue
        rng.shuffle(calls)
        # prefer calls with repeated objects and constants among the sampled ones
        calls.sort(key=lambda c: (len(set(c)) == len(c), not any(x in w.constants for x in c)))
        picked = calls[:2] + rng.sample(calls[2:], min(len(calls) - 2, max_calls - 2)) if len(calls) > 2 else calls
        tags = gen.features_of(pre) if pre else {"empty"}
        for call in picked:
            if not ctx.next_case():
                continue
            ctx.count("cases")
            b = model.binding(act_m, call)
            states, exhaustive = gen.covering_states(rng, wm, w, [(act_m.pre, b)], max_exhaustive_bits=bits,
                                                     n_random=16 if thorough else 8, n_boundary=2, cross_cap=24)
            if exhaustive:
                ctx.count("exhaustive_blocks")
            try:
                op = lib.make_operator(dom, f"a{i}", call, sf.objects_table())
            except BaseException as e:
                ctx.count("refused:operator")
                continue
            seen_vals = set()
            first = True
            for st in states:
                try:
                    exp = model.holds(wm, act_m.pre, st, b)
                except model.Outside:
                    ctx.count("skipped_outside_quantifier")
                    continue
                m = model.cmp_margins(wm, act_m.pre, st, b)
                if any(0 < x < EPS_SLACK for x in m):
                    ctx.count("boundary_skipped")
                    continue
                try:
                    s = sf.state(st)
                    got = op.is_applicable(s)
                except BaseException as e:
                    ctx.count("refused:is_applicable")
                    ctx.notes.setdefault("refused_example", {"error": lib.exc_name(e), "pre": sx.plain(pre) if pre else "()"})
                    break
                ctx.count("compared")
                ctx.count("compared:true" if exp else "compared:false")
                if first:
                    ctx.feat(tags)
                    if len(set(call)) < len(call):
                        ctx.feat({"call:repeated-object"})
                    if any(x in w.constants for x in call):
                        ctx.feat({"call:constant"})
                    first = False
                seen_vals.add(exp)
                if got is not exp:
                    kind = "applicable-but-precondition-false" if got else "inapplicable-but-precondition-true"
                    if not isinstance(got, bool):
                        kind = "non-boolean-answer"
                    ctx.violation(f"{kind}[{','.join(mech_tags(pre)) or 'literals'}]", {
                        "domain": text, "action": f"a{i}", "precondition": sx.plain(pre) if pre else "()", "call": list(call),
                        "objects": w.objects, "state": model.show_state(st), "expected": exp, "observed": got})
                    break
            if len(seen_vals) == 2:
                ctx.nontrivial([sx.plain(pre) if pre else "()", list(call), sorted(w.objects.items())])
            if ctx.case_index % 997 == 0 and states:
                ctx.sample({"precondition": sx.plain(pre) if pre else "()", "call": list(call), "objects": w.objects,
                            "states_tested": len(states), "one_state": model.show_state(states[0])})


# ---- the fixed small world of the bounded-exhaustive sweep ------------------------------------
def sweep_world():
    w = gen.W()
    w.types = [("t0", "object"), ("t1", "t0"), ("t2", "object")]
    w.constants = {"k0": "t2"}
    w.preds = {"p": [("?a0", "t0")], "q": [("?a0", "t0"), ("?a1", "object")], "z": []}
    w.funcs = {"f": [("?a0", "t0")], "g": []}
    w.objects = {"ob": "t0", "ob1": "t0", "c-3": "t1"}
    return w


LEAVES = [["p", "?x"], ["not", ["p", "?y"]], ["q", "?x", "?y"], ["not", ["q", "?y", "k0"]], ["z"],
          ["=", "?x", "?y"], ["not", ["=", "?x", "?y"]], [">=", ["f", "?x"], ["g"]], ["<", ["f", "?x"], ["f", "?y"]],
          ["q", "?x", "k0"]]
QLEAVES = [["p", "?o"], ["not", ["p", "?o"]], ["q", "?x", "?o"], ["not", ["q", "?o", "?y"]], [">=", ["f", "?o"], ["g"]]]


def conjunct_kinds():
    out = [l for l in LEAVES]
    for a, b in itertools.combinations(LEAVES, 2):
        out.append(["or", a, b])
        out.append(["and", a, b])
    for op in ("and", "or"):
        for a in QLEAVES:
            out.append(["forall", ["?o", "-", "t0"], [op, a]])
        for a, b in itertools.combinations(QLEAVES, 2):
            out.append(["forall", ["?o", "-", "t0"], [op, a, b]])
        for a in QLEAVES:
            for op2 in ("and", "or"):
                for b, c in itertools.combinations(QLEAVES, 2):
                    out.append(["forall", ["?o", "-", "t0"], [op, a, [op2, b, c]]])
    return out


def sweep_formulas(rng, n_pairs):
    kinds = conjunct_kinds()
    fs = [["and", k] for k in kinds]
    for k in kinds:
        for l in LEAVES:
            if l != k:
                fs.append(["and", k, l])
    for _ in range(n_pairs):
        a, b = rng.sample(kinds, 2)
        fs.append(["and", a, b])
    return fs


def run(ctx):
    lib.assert_repo()
    rng = ctx.rng("c02")
    thorough = ctx.tier == "thorough"
    params_sweep = [("?x", "t0"), ("?y", "t0")]
    # ---- random formulas -----------------------------------------------------------------
    n_domains = 14 if thorough else 6
    for d in range(n_domains):
        if ctx.over_budget():
            break
        w = gen.gen_world(rng, name_clash=0.25)
        acts = [(gen.gen_params(rng, w), None if d == 0 else ["and"])]  # '()' and '(and)' are always present
        acts[0] = (acts[0][0], [] if d % 2 == 0 else ["and"])
        for _ in range(6 if thorough else 4):
            params = gen.gen_params(rng, w)
            pre = gen.gen_formula(rng, w, params, depth=rng.choice([1, 2, 3]), width=3,
                                  use_constants=0.15, allow_repeat=False)
            acts.append((params, pre))
        run_domain(ctx, rng, w, acts, max_calls=6 if thorough else 4, bits=7, thorough=thorough)
    # ---- bounded sweep over the small vocabulary (sampled in quick, complete in thorough) ---
    srng = ctx.rng("sweep-formulas-shared") if False else __import__("random").Random(ctx.seed * 7919 + 17)
    fs = sweep_formulas(srng, 2500 if thorough else 0)
    mine = [f for j, f in enumerate(fs) if j % ctx.nshards == ctx.shard]
    if not thorough:
        mine = rng.sample(mine, min(len(mine), 12))
    ctx.notes["sweep_formulas_total"] = len(fs)
    for k in range(0, len(mine), 25):
        w = sweep_world()
        run_domain(ctx, rng, w, [(params_sweep, f) for f in mine[k:k + 25]], max_calls=6 if thorough else 5,
                   bits=8 if thorough else 7, thorough=thorough)

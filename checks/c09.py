"""C09 - exporting a problem and parsing it back preserves it.

Monitor: ProblemExporter().extract_problem(p) -> text (re-read independently) -> ProblemParser on
that text against the same domain -> public fields compared with the original's and with the
generator's ground truth."""
import os
from fractions import Fraction
from pathlib import Path

from vlib import sx, lib, model, gen, env
from checks import c05

RULE = ("C05's valid problems (binary and ternary fluents with repeated arguments, zero-arity atoms and fluents, constants, "
        "empty goal / init, numeric goals) over generated worlds, and every shipped problem file paired with the shipped "
        "domain it names; a case = one problem; distinct by problem text; non-trivial when it has >= 1 fact, >= 1 fluent and "
        ">= 1 goal condition")
DECISIVE = ["compared:roundtrip"]
DECISIVE_EACH = ["compared:roundtrip", "compared:exported-text"]
ASSUMPTIONS = ["generator AST = ground truth", "the exported text is judged through the reference reader, never by string comparison",
               "numeric goal constants are representable at the library's configured print precision (NUMERIC_PRECISION, 4 decimals "
               "by default): goals are printed with to_pddl(), whose precision is a stated setting (C12: 'up to the print precision'); "
               "initial fluent values carry no such setting and must survive exactly"]
SHARDS = {"quick": 16, "thorough": 16}


def roundtrip(ctx, dom, pr, exp, wit, trig, init_items=None, goal=None, w=None):
    from pddl_plus_parser.exporters import ProblemExporter
    try:
        text = ProblemExporter().extract_problem(pr)
    except BaseException as e:
        ctx.count("compared:roundtrip")
        ctx.violation("export:extract_problem-raises", dict(wit, observed=lib.exc_name(e)))
        return
    wit = dict(wit, exported=text[:2500])
    # the exported text, read independently
    ctx.count("compared:exported-text")
    try:
        rp = model.RefProblem.from_text(text)
    except Exception as e:
        ctx.violation("export:text-is-not-a-readable-problem", dict(wit, observed=str(e)))
        return
    try:
        pr2 = lib.parse_problem_text(text, dom)
        obs2 = c05.observe_problem(pr2)
    except BaseException as e:
        ctx.count("compared:roundtrip")
        # a re-ordered repeated-argument fluent may no longer type check: attributed to the finding only when the
        # exported text itself already equals the defect emulation (and differs from the truth)
        emu_bad = False
        if trig and init_items is not None and exp is not None:
            emu_fl = model.emulate_fluent_store(init_items)
            emu_bad = ({k: float(v) for k, v in rp.fluents.items()} == {k: float(v) for k, v in emu_fl.items()} and emu_fl != exp["fluents"])
            if goal is not None and rp.goal:
                got_ng = sorted(repr(model.canon_expr(g)) for g in rp.goal[1:] if isinstance(g, list) and g and g[0] in model.CMP)
                emu_ng = sorted(repr(model.canon_expr(c05.collapse_terms(g, w))) for g in goal[1:] if g[0] in model.CMP)
                emu_bad = emu_bad or (got_ng == emu_ng and emu_ng != exp["numeric_goals"])
        if emu_bad:
            ctx.known_finding("KF-REPEATED-ARGS", dict(wit, observed=lib.exc_name(e), note="re-parse of the exported text raised"))
        else:
            ctx.violation("roundtrip:reparse-raises", dict(wit, observed=lib.exc_name(e)))
        return
    ctx.count("compared:roundtrip")
    obs1 = c05.observe_problem(pr)
    d_real = c05.diff_problem(obs1, obs2)  # real vs real
    d_truth = c05.diff_problem(exp, obs2) if exp is not None else []
    if not d_real and not d_truth:
        return
    if trig and exp is not None and init_items is not None:
        emu = dict(exp)
        emu["fluents"] = model.emulate_fluent_store(init_items)
        # a second pass through the store does not change an already re-ordered key
        emu["numeric_goals"] = sorted(repr(model.canon_expr(c05.collapse_terms(g, w))) for g in goal[1:] if g[0] in model.CMP)
        if not c05.diff_problem(emu, obs2):
            ctx.known_finding("KF-REPEATED-ARGS", dict(wit, differences=(d_truth or d_real)[:3]))
            return
    d = d_real or d_truth
    ctx.violation("roundtrip:" + c05.classify(d, exp), dict(wit, differences=d[:5], compared_with="original object" if d_real else "generator ground truth"))


def generated(ctx, rng, thorough):
    for wi in range(60 if thorough else 5):
        w = gen.gen_world(rng, max_arity=3, n_objs=rng.randint(3, 5), n_funcs=rng.randint(1, 3))
        text_d = w.domain_text()
        try:
            dom = lib.parse_domain_text(text_d)
        except BaseException:
            ctx.count("refused:domain")
            continue
        for pi in range(8 if thorough else 4):
            if not ctx.next_case():
                continue
            ctx.count("cases")
            if rng.random() < 0.5:
                # objects of the root type at arbitrary positions of the object table (an exporter that leaves their
                # type implicit would hand them the type of whatever follows)
                objs = list(w.objects.items())
                for zi in range(rng.randint(1, 2)):
                    objs.insert(rng.randrange(len(objs) + 1), (f"zz{zi}", "object"))
                w.objects = dict(objs)
            atoms, fluents, goal = c05.gen_problem(rng, w)
            name = rng.choice(["prob", "p-01", "pfile_7"])
            items = gen.W.typed_items(list(w.objects.items()), "single")
            ast = c05.problem_text(w, name, w.name, items, atoms, fluents, goal, rng)
            text = sx.plain(ast)
            exp = c05.expected_problem(w, name, w.objects, atoms, fluents, goal)
            try:
                pr = lib.parse_problem_text(text, dom)
            except BaseException:
                ctx.count("refused:problem")
                continue
            init_items = [(tuple(f[1]), Fraction(float(model.to_frac(f[2])))) for f in ast[4][1:] if f[0] == "=" and isinstance(f[1], list)]
            trig = any(model.has_repeat(k) for k in fluents) or any(c05.term_has_repeat(g, w) for g in goal[1:] if g[0] in model.CMP)
            feats = set()
            if not atoms and not fluents:
                feats.add("empty-init")
            if len(goal) == 1:
                feats.add("empty-goal")
            if any(model.has_repeat(k) for k in fluents):
                feats.add("fluent:repeated-argument")
            if any(len(a) == 1 for a in atoms) or any(len(k) == 1 for k in fluents):
                feats.add("zero-arity")
            if any(g[0] in model.CMP for g in goal[1:]):
                feats.add("numeric-goal")
            if any(x in w.constants for a in atoms for x in a[1:]):
                feats.add("constant-argument")
            ctx.feat(feats or {"plain"})
            if atoms and fluents and len(goal) > 1:
                ctx.nontrivial(text)
            roundtrip(ctx, dom, pr, exp, {"domain": text_d, "problem": text}, trig, init_items, goal, w)
            if wi == 0 and pi == 0:
                ctx.sample({"problem": text[:900]})


def shipped(ctx):
    root = os.path.join(env.repo_path(), "tests")
    doms, probs = {}, []
    for d, _, fs in os.walk(root):
        for f in fs:
            if not f.endswith(".pddl"):
                continue
            fp = os.path.join(d, f)
            try:
                ast = sx.read(open(fp, errors="replace").read())
            except Exception:
                continue
            heads = {s[0]: s for s in ast[1:] if isinstance(s, list) and s}
            if "domain" in heads:
                doms.setdefault((d, heads["domain"][1]), fp)
            elif "problem" in heads and ":domain" in heads:
                probs.append((d, heads[":domain"][1], fp))
    for j, (d, dn, fp) in enumerate(sorted(probs)):
        if j % ctx.nshards != ctx.shard:
            continue
        cand = doms.get((d, dn)) or next((p for (dd, n), p in sorted(doms.items()) if n == dn), None)
        if not cand:
            ctx.count("shipped_problem_without_domain")
            continue
        if not ctx.next_case():
            continue
        ctx.count("cases")
        try:
            dom = lib.DomainParser(Path(cand)).parse_domain()
            pr = lib.ProblemParser(Path(fp), dom).parse_problem()
        except BaseException as e:
            ctx.count("shipped_unparsable")
            ctx.notes.setdefault("shipped_unparsable", []).append([os.path.relpath(fp, root), lib.exc_name(e)])
            continue
        ctx.count("shipped_problems")
        ctx.nontrivial(fp)
        roundtrip(ctx, dom, pr, None, {"files": [os.path.relpath(cand, root), os.path.relpath(fp, root)]}, trig=False)


def run(ctx):
    lib.assert_repo()
    rng = ctx.rng("c09")
    generated(ctx, rng, ctx.tier == "thorough")
    shipped(ctx)

"""C15 - sequential-to-joint plan conversion keeps actions, agent order and outcome.

Monitor (offline checker over the returned history): PlanConverter(domain).convert_plan(problem,
plan_file, agents, flag) -> joint actions; conservation (multiset), per-agent order, slot discipline,
and - with the reference model as independent interpreter - every member applicable in the step's
pre-state, members commute, final state equals the sequential plan's."""
import os
from collections import Counter
from pathlib import Path

from vlib import sx, lib, model, gen, magen, env

RULE = ("valid sequential plans (random walks of model-applicable actions, 2-40 steps) over generated multi-agent STRIPS and "
        "numeric worlds with 2-4 agents (conditional and universal effects included), both values of the concurrency switch, "
        "step-numbered and bare plan lines; plus the plans shipped with the repository; a case = one (plan, switch); distinct "
        "by domain + problem + plan + switch; non-trivial when the plan has >= 2 agents acting and the conversion produced at "
        "least one joint step with >= 2 non-nop members")
DECISIVE = ["compared:conservation", "compared:semantics"]
DECISIVE_EACH = ["compared:conservation", "compared:order", "compared:slots", "compared:semantics"]
ASSUMPTIONS = ["refpddl is the independent interpreter of both plans", "the executing agent of an action is its first argument that names an agent"]
SHARDS = {"quick": 16, "thorough": 16}


def check_conversion(ctx, wm, dom_m, st0, seq, agents, joint, wit):
    """seq: [(action, call)] ; joint: list of JointActionCall"""
    got = [[[a.name] + list(a.parameters) for a in j.actions] for j in joint]
    wit = dict(wit, joint_plan=got)
    # slots
    ctx.count("compared:slots")
    for i, step in enumerate(got):
        if len(step) != len(agents):
            ctx.violation("convert:step-does-not-have-one-slot-per-agent", dict(wit, step=i))
            return False
        for a, slot in zip(agents, step):
            if slot[0] == "nop":
                continue
            ex = [p for p in slot[1:] if p in agents]
            if not ex or ex[0] != a:
                ctx.violation("convert:slot-holds-an-action-of-another-agent", dict(wit, step=i, slot_agent=a, action=slot))
                return False
    # conservation
    ctx.count("compared:conservation")
    flat = [tuple(s) for step in got for s in step if s[0] != "nop"]
    want = [tuple([an] + list(c)) for an, c in seq]
    if Counter(flat) != Counter(want):
        missing = Counter(want) - Counter(flat)
        extra = Counter(flat) - Counter(want)
        ctx.violation("convert:actions-not-conserved", dict(wit, missing=[list(k) for k in missing], extra=[list(k) for k in extra]))
        return False
    # per-agent order
    ctx.count("compared:order")
    for a in agents:
        w_a = [x for x in want if [p for p in x[1:] if p in agents][:1] == [a]]
        g_a = [tuple(step[agents.index(a)]) for step in got if step[agents.index(a)][0] != "nop"]
        if w_a != g_a:
            ctx.violation("convert:per-agent-order-changed", dict(wit, agent=a, expected=[list(x) for x in w_a], observed=[list(x) for x in g_a]))
            return False
    # semantics under the independent interpreter
    ctx.count("compared:semantics")
    st = st0
    for an, c in seq:
        st = model.successor(wm, dom_m.actions[an], c, st)
    final_seq = st
    st = st0
    for i, step in enumerate(got):
        members = [(s[0], list(s[1:])) for s in step if s[0] != "nop"]
        for an, c in members:
            try:
                app = model.successor(wm, dom_m.actions[an], c, st) is not None
            except (model.Outside, model.Inconsistent):
                app = False
            if not app:
                ctx.violation("convert:joint-step-contains-an-action-inapplicable-in-its-pre-state",
                              dict(wit, step=i, action=[an] + c, pre_state=model.show_state(st)))
                return False
        nxt = magen.commuting(wm, dom_m, st, members) if len(members) <= 4 else magen.seq_apply(wm, dom_m, st, members)
        if nxt is None:
            info = dict(wit, step=i, members=[[a] + c for a, c in members], pre_state=model.show_state(st))
            # two members changing the same numeric function: the one interference test of the converter that works
            # today.  Never attributed to the recorded finding.
            tg = [numeric_targets(dom_m.actions[an], model.binding(dom_m.actions[an], c)) for an, c in members]
            if any(tg[x] & tg[y] for x in range(len(tg)) for y in range(x + 1, len(tg))):
                ctx.violation("convert:joint-step-groups-actions-that-change-the-same-numeric-function", info)
                return False
            # every member is applicable in the pre-state (checked above) but the members do not commute: this is the
            # recorded finding KF-CONVERTER-INTERFERENCE (its interference test is vacuous); nothing else is attributed to it
            ctx.known_finding("KF-CONVERTER-INTERFERENCE", info)
            return False
        st = nxt
    if model.canon_state(st) != model.canon_state(final_seq):
        ctx.violation("convert:joint-plan-reaches-a-different-final-state", dict(wit, sequential=model.show_state(final_seq), joint=model.show_state(st)))
        return False
    return True


def numeric_targets(act, b):
    out = set()

    def go(e):
        if not isinstance(e, list) or not e:
            return
        if e[0] in model.UPD:
            out.add(tuple(model.subst(e[1], b)))
        elif e[0] in ("and", "when", "forall"):
            for x in e[1:]:
                go(x)

    go(act.eff or [])
    return out


def emulated_packing_hits_finding(wm, dom_m, st0, seq, agents, flag):
    """Emulation of the recorded finding KF-CONVERTER-INTERFERENCE: replay the converter's greedy pairing (a step is
    the next action, plus at most the action after it when that one belongs to another agent, is applicable in the
    step's pre-state, changes no numeric function the first one changes and - with the concurrency switch - shares no
    argument with it) under the reference model and report whether it packs a non-commuting pair."""
    st = st0
    k = 0
    while k < len(seq):
        an, c = seq[k]
        if k + 1 < len(seq):
            an2, c2 = seq[k + 1]
            ag1 = [p for p in c if p in agents][:1]
            ag2 = [p for p in c2 if p in agents][:1]
            try:
                app2 = model.successor(wm, dom_m.actions[an2], c2, st) is not None
            except (model.Outside, model.Inconsistent):
                app2 = False
            t1 = numeric_targets(dom_m.actions[an], model.binding(dom_m.actions[an], c))
            t2 = numeric_targets(dom_m.actions[an2], model.binding(dom_m.actions[an2], c2))
            if ag1 != ag2 and app2 and not (t1 & t2) and not (flag and set(c) & set(c2)):
                if magen.commuting(wm, dom_m, st, [(an, c), (an2, c2)]) is None:
                    return True
                st = magen.seq_apply(wm, dom_m, st, [(an, c), (an2, c2)])
                k += 2
                continue
        st = model.successor(wm, dom_m.actions[an], c, st)
        if st is None:
            return False
        k += 1
    return False


def refusal_explained_by_finding(PlanConverter, dom, dom_m, wm, ptext, st0, lines, agents, flag):
    """A ValueError("... not applicable") on a valid plan is the recorded finding KF-CONVERTER-INTERFERENCE only when the
    converter's tracked state can have diverged from the plan's: i.e. when, before the step at which it refuses, it
    packed members that interfere.  Located with the library itself: the shortest prefix of the plan that a FRESH
    converter refuses, and the joint steps it produced for the prefix one action shorter; the reference model then
    looks for a packed step whose members do not commute.  Returns (explained?, details)."""
    last_ok, fail_at = None, None
    for L in range(1, len(lines) + 1):
        pp = Path(env.write_tmp("\n".join(lines[:L]) + "\n", suffix=".txt"))
        try:
            prob = lib.parse_problem_text(ptext, dom)
            last_ok = PlanConverter(dom).convert_plan(prob, pp, list(agents), flag)
        except ValueError as e:
            if "not applicable" in str(e):
                fail_at = L
                break
            return False, {"prefix_conversion": lib.exc_name(e)}
        except BaseException as e:
            return False, {"prefix_conversion": lib.exc_name(e)}
    if fail_at is None:
        return False, {"fresh_converter": "converts the whole plan without an error"}
    if last_ok is None:
        return False, {"shortest_refused_prefix": fail_at}
    st = st0
    for i, j in enumerate(last_ok):
        members = [(a.name, [str(x) for x in a.parameters]) for a in j.actions if a.name != "nop"]
        try:
            nxt = magen.commuting(wm, dom_m, st, members)
        except BaseException:
            nxt = None
        if nxt is None:
            return True, {"shortest_refused_prefix": fail_at, "interfering_step": i, "members": members}
        st = nxt
    return False, {"shortest_refused_prefix": fail_at, "joint_steps_before_it": len(last_ok), "interfering_steps_before_it": 0}


LOOPS = [0]


def pair_in_two_states(rng, wm, dom_m, st, tries=10):
    """[A, B, Z, A, B]: the same two consecutive calls of different agents, once in a state in which B is applicable
    before A (they may share a joint step) and once - after Z - in a state in which only A makes B applicable (they may
    not).  Whether two calls can be grouped depends on the state, not on the calls.  None if the world has no such loop."""
    def ok(an, c, s):
        try:
            return model.successor(wm, dom_m.actions[an], c, s)
        except (model.Outside, model.Inconsistent):
            return None
    cs = magen.applicable_calls(wm, dom_m, st)
    rng.shuffle(cs)
    for an, c, st1 in cs[:tries]:
        if set(st1[1]) != set(st[1]):
            continue
        bs = [b for b in magen.applicable_calls(wm, dom_m, st1) if b[1][0] != c[0] and ok(b[0], b[1], st) is not None]
        rng.shuffle(bs)
        for bn, d, st2 in bs[:tries]:
            if set(st2[1]) != set(st[1]):
                continue
            zs = magen.applicable_calls(wm, dom_m, st2)
            rng.shuffle(zs)
            for zn, zc, st3 in zs[:2 * tries]:
                if set(st3[1]) != set(st[1]) or ok(bn, d, st3) is not None:
                    continue
                st4 = ok(an, c, st3)
                if st4 is None or set(st4[1]) != set(st[1]):
                    continue
                st5 = ok(bn, d, st4)
                if st5 is None or set(st5[1]) != set(st[1]):
                    continue
                return [(an, c), (bn, d), (zn, zc), (an, c), (bn, d)], st5
    return None


def gen_plan(rng, wm, dom_m, w, st0, length):
    st = prev_st = st0
    seq = []
    for _ in range(length):
        if rng.random() < 0.08:
            loop = pair_in_two_states(rng, wm, dom_m, st)
            if loop:
                seq += loop[0]
                st = prev_st = loop[1]
                LOOPS[0] += 1
                continue
        cs = magen.applicable_calls(wm, dom_m, st)
        # prefer switching agents so that there is something to pack
        if seq and rng.random() < 0.7:
            other = [c for c in cs if c[1][0] != seq[-1][1][0]]
            cs = other or cs
        cs = [c for c in cs if set(c[2][1]) == set(st[1])]
        if not cs:
            break
        if seq and rng.random() < 0.4:
            # hostile bias: follow an action by one of another agent that writes a numeric function the first one writes too
            # (they must never share a joint step), or that reads what it writes
            pa, pc = seq[-1]
            t_prev = numeric_targets(dom_m.actions[pa], model.binding(dom_m.actions[pa], pc))
            clash = [c for c in cs if c[1][0] != pc[0] and numeric_targets(dom_m.actions[c[0]], model.binding(dom_m.actions[c[0]], c[1])) & t_prev]
            cs = clash or cs
        elif seq and rng.random() < 0.5:
            # enabler -> consumer: follow an action by one of another agent that needs a fact the first one adds - whether
            # or not the fact already held before (the same pair of calls is packable in one state and not in another)
            pa, pc = seq[-1]
            try:
                adds, _, _ = model.collect_effects(wm, dom_m.actions[pa].eff, prev_st, model.binding(dom_m.actions[pa], pc))
                without = (frozenset(st[0]) - {a for a, _ in adds}, st[1])
                cons = []
                for c in cs:
                    if c[1][0] == pc[0]:
                        continue
                    try:
                        if model.successor(wm, dom_m.actions[c[0]], c[1], without) is None:
                            cons.append(c)
                    except (model.Outside, model.Inconsistent):
                        pass
                cs = cons or cs
            except (model.Outside, model.Inconsistent, model.ModelError):
                pass
        an, call, nxt = rng.choice(cs)
        seq.append((an, call))
        prev_st = st
        st = nxt
    return seq


def run(ctx):
    lib.assert_repo()
    from pddl_plus_parser.multi_agent import PlanConverter
    rng = ctx.rng("c15")
    thorough = ctx.tier == "thorough"
    for wi in range(24 if thorough else 8):
        w = magen.ma_world(rng)
        dtext = w.domain_text()
        try:
            dom = lib.parse_domain_text(dtext)
        except BaseException:
            ctx.count("refused:domain")
            continue
        dom_m = model.RefDomain.from_text(dtext)
        wm = model.World(dom_m, w.objects)
        shared_converter = None
        for pi in range(8 if thorough else 4):
            st0 = magen.ma_initial_state(rng, w)
            ptext = sx.plain(w.problem_ast(st0))
            seq = gen_plan(rng, wm, dom_m, w, st0, rng.choice([2, 4, 8, 20, 40]) if thorough else rng.choice([2, 5, 12, 24]))
            if len(seq) < 2:
                continue
            numbered = rng.random() < 0.5
            lines = [(f"{i}: " if numbered else "") + "(" + " ".join([an] + c) + ")" for i, (an, c) in enumerate(seq)]
            plan_path = Path(env.write_tmp("\n".join(lines) + "\n", suffix=".txt"))
            for flag in (True, False):
                if not ctx.next_case():
                    continue
                ctx.count("cases")
                wit = {"domain": dtext, "problem": ptext, "plan": lines, "agents": w.agents, "should_validate_concurrency_constraint": flag}
                try:
                    prob = lib.parse_problem_text(ptext, dom)
                    # a converter is constructed per domain and serves many plans: most conversions go through one that has
                    # already converted other plans (other problems, the other flag value) of this domain
                    if shared_converter is not None and rng.random() < 0.7:
                        conv = shared_converter
                        ctx.count("conversions_by_a_reused_converter")
                        wit["converter"] = "reused after other plans of the domain"
                    else:
                        conv = shared_converter = PlanConverter(dom)
                    joint = conv.convert_plan(prob, plan_path, list(w.agents), flag)
                except BaseException as e:
                    ctx.count("compared:conservation")
                    explained, how = False, {}
                    if isinstance(e, ValueError) and "not applicable" in str(e):
                        explained, how = refusal_explained_by_finding(PlanConverter, dom, dom_m, wm, ptext, st0, lines, w.agents, flag)
                        ctx.count("refusals_located_by_prefix_conversions")
                    if explained:
                        # the converter packed an interfering pair (recorded finding), its tracked state diverged
                        # from the plan's and it then refused a later action of the valid plan
                        ctx.known_finding("KF-CONVERTER-INTERFERENCE", dict(wit, observed=lib.exc_name(e), located=how,
                                                                            note="refusal after packing an interfering pair"))
                    else:
                        ctx.violation("convert:raises-on-a-valid-plan", dict(wit, observed=lib.exc_name(e), located=how))
                    continue
                ctx.feat({"concurrency-constraint:" + str(flag), "numbered" if numbered else "bare", "numeric" if w.funcs else "strips"})
                acting = {c[0] for _, c in seq}
                packed = any(sum(1 for a in j.actions if a.name != "nop") >= 2 for j in joint)
                if len(acting) >= 2 and packed:
                    ctx.nontrivial([dtext, ptext, lines, flag])
                ctx.count("joint_steps", len(joint))
                ctx.count("steps_with_2plus_members", sum(1 for j in joint if sum(1 for a in j.actions if a.name != "nop") >= 2))
                check_conversion(ctx, wm, dom_m, st0, seq, list(w.agents), joint, wit)
                if wi == 0 and pi == 0:
                    ctx.sample({"plan": lines[:10], "agents": w.agents, "joint_steps": len(joint)})
    ctx.count("plans_segments_with_one_pair_in_two_states", LOOPS[0])
    shipped(ctx, PlanConverter)


SHIPPED = [
    ("multi_agent_tests/sokoban_domain.pddl", "multi_agent_tests/sokoban_problem.pddl", "multi_agent_tests/sokoban_plan.txt",
     ["player-01", "player-02"]),
    ("multi_agent_tests/combined_domain.pddl", "multi_agent_tests/combined_problem.pddl", "multi_agent_tests/woodworking_plan.txt",
     ["glazer0", "grinder0", "highspeed-saw0", "immersion-varnisher0", "planer0", "saw0", "spray-varnisher0"]),
    ("multi_agent_tests/depots_domain.pddl", "multi_agent_tests/depots_problem.pddl", "multi_agent_tests/depots_plan.txt",
     ["depot0", "depot1", "depot2", "depot3", "distributor0", "distributor1", "distributor2", "distributor3", "driver0", "driver1",
      "driver2", "driver3"]),
    ("multi_agent_tests/satellite_numeric_multi_agent/metricSat.pddl", "multi_agent_tests/satellite_numeric_multi_agent/pfile010.pddl",
     "multi_agent_tests/satellite_numeric_multi_agent/pfile010.solution", ["satellite0", "satellite1", "satellite2", "satellite3", "satellite4"]),
    ("multi_agent_tests/blocks_socs_experiment/original_domain.pddl", "multi_agent_tests/blocks_socs_experiment/original_problem_3.pddl",
     "multi_agent_tests/blocks_socs_experiment/sol.txt", ["a1", "a2", "a3"]),
]


def shipped(ctx, PlanConverter):
    rp = os.path.join(env.repo_path(), "tests")
    for j, (d, p, s, agents) in enumerate(SHIPPED):
        if j % ctx.nshards != ctx.shard:
            continue
        dp, pp, sp = (os.path.join(rp, x) for x in (d, p, s))
        if not all(os.path.exists(x) for x in (dp, pp, sp)):
            ctx.count("shipped_missing")
            continue
        try:
            dom_m = model.RefDomain.from_text(open(dp).read())
            prob_m = model.RefProblem.from_text(open(pp).read())
            wm = model.World(dom_m, prob_m.objects, constants_in_range=True)
            import re
            seq = []
            for m in re.finditer(r"\(([^()]*)\)", open(sp).read()):
                toks = m.group(1).lower().split()
                if toks:
                    seq.append((toks[0], toks[1:]))
            if agents is None:
                agents = guess_agents(dom_m, prob_m)
            st = prob_m.state()
            ok = True
            for an, c in seq:
                st = model.successor(wm, dom_m.actions[an], c, st)
                if st is None:
                    ok = False
                    break
            if not ok or not agents:
                ctx.count("shipped_plan_not_valid_in_model")
                continue
        except Exception as e:
            ctx.count("shipped_outside_model")
            ctx.notes.setdefault("shipped_outside_model", []).append([s, str(e)[:100]])
            continue
        for flag in (True, False):
            if not ctx.next_case():
                continue
            ctx.count("cases")
            wit = {"files": [d, p, s], "agents": agents, "should_validate_concurrency_constraint": flag}
            try:
                dom = lib.DomainParser(Path(dp)).parse_domain()
                prob = lib.ProblemParser(Path(pp), dom).parse_problem()
                joint = PlanConverter(dom).convert_plan(prob, Path(sp), list(agents), flag)
            except BaseException as e:
                ctx.count("compared:conservation")
                ctx.violation("convert:raises-on-a-valid-plan[shipped]", dict(wit, observed=lib.exc_name(e)))
                continue
            ctx.count("shipped_plans")
            ctx.nontrivial([s, flag])
            check_conversion(ctx, wm, dom_m, prob_m.state(), seq, list(agents), joint, wit)


def guess_agents(dom_m, prob_m):
    """objects of a type named like an agent type; else objects that appear as first argument of every action"""
    for tname in ("agent", "ag", "robot", "satellite", "truck", "player"):
        ags = [o for o, t in prob_m.objects.items() if dom_m.subtype(t, tname)] if tname in dom_m.type_names() else []
        if ags:
            return ags
    return []

"""C15 - sequential-to-joint plan conversion keeps actions, agent order and outcome.

Monitor (offline checker over the returned history): PlanConverter(domain).convert_plan(problem,
plan_file, agents, flag) -> joint actions; conservation (multiset), per-agent order, slot discipline,
and - with the reference model as independent interpreter - every member applicable in the step's
pre-state, members commute, final state equals the sequential plan's."""
import os
from collections import Counter
from pathlib import Path

from vlib import sx, lib, model, gen, magen, env

RULE = ("valid sequential plans (random walks of model-applicable actions, 2-40 steps) over generated multi-agent STRIPS and "
        "numeric worlds with 2-4 agents (conditional and universal effects included), both values of the concurrency switch, "
        "step-numbered and bare plan lines; plus the plans shipped with the repository; a case = one (plan, switch); distinct "
        "by domain + problem + plan + switch; non-trivial when the plan has >= 2 agents acting and the conversion produced at "
        "least one joint step with >= 2 non-nop members")
DECISIVE = ["compared:conservation", "compared:semantics"]
DECISIVE_EACH = ["compared:conservation", "compared:order", "compared:slots", "compared:semantics"]
ASSUMPTIONS = ["refpddl is the independent interpreter of both plans", "the executing agent of an action is its first argument that names an agent"]
SHARDS = {"quick": 16, "thorough": 16}


def check_conversion(ctx, wm, dom_m, st0, seq, agents, joint, wit):
    """seq: [(action, call)] ; joint: list of JointActionCall"""
    got = [[[a.name] + list(a.parameters) for a in j.actions] for j in joint]
    wit = dict(wit, joint_plan=got)
    # slots
    ctx.count("compared:slots")
    for i, step in enumerate(got):
        if len(step) != len(agents):
            ctx.violation("convert:step-does-not-have-one-slot-per-agent", dict(wit, step=i))
            return False
        for a, slot in zip(agents, step):
            if slot[0] == "nop":
                continue
            ex = [p for p in slot[1:] if p in agents]
            if not ex or ex[0] != a:
                ctx.violation("convert:slot-holds-an-action-of-another-agent", dict(wit, step=i, slot_agent=a, action=slot))
                return False
    # conservation
    ctx.count("compared:conservation")
    flat = [tuple(s) for step in got for s in step if s[0] != "nop"]
    want = [tuple([an] + list(c)) for an, c in seq]
    if Counter(flat) != Counter(want):
        missing = Counter(want) - Counter(flat)
        extra = Counter(flat) - Counter(want)
        ctx.violation("convert:actions-not-conserved", dict(wit, missing=[list(k) for k in missing], extra=[list(k) for k in extra]))
        return False
    # per-agent order
    ctx.count("compared:order")
    for a in agents:
        w_a = [x for x in want if [p for p in x[1:] if p in agents][:1] == [a]]
        g_a = [tuple(step[agents.index(a)]) for step in got if step[agents.index(a)][0] != "nop"]
        if w_a != g_a:
            ctx.violation("convert:per-agent-order-changed", dict(wit, agent=a, expected=[list(x) for x in w_a], observed=[list(x) for x in g_a]))
            return False
    # semantics under the independent interpreter
    ctx.count("compared:semantics")
    st = st0
    for an, c in seq:
        st = model.successor(wm, dom_m.actions[an], c, st)
    final_seq = st
    st = st0
    for i, step in enumerate(got):
        members = [(s[0], list(s[1:])) for s in step if s[0] != "nop"]
        for an, c in members:
            try:
                app = model.successor(wm, dom_m.actions[an], c, st) is not None
            except (model.Outside, model.Inconsistent):
                app = False
            if not app:
                ctx.violation("convert:joint-step-contains-an-action-inapplicable-in-its-pre-state",
                              dict(wit, step=i, action=[an] + c, pre_state=model.show_state(st)))
                return False
        nxt = magen.commuting(wm, dom_m, st, members) if len(members) <= 4 else magen.seq_apply(wm, dom_m, st, members)
        if nxt is None:
            info = dict(wit, step=i, members=[[a] + c for a, c in members], pre_state=model.show_state(st))
            # two members changing the same numeric function: the one interference test of the converter that works
            # today.  Never attributed to the recorded finding.
            tg = [numeric_targets(dom_m.actions[an], model.binding(dom_m.actions[an], c)) for an, c in members]
            if any(tg[x] & tg[y] for x in range(len(tg)) for y in range(x + 1, len(tg))):
                ctx.violation("convert:joint-step-groups-actions-that-change-the-same-numeric-function", info)
                return False
            # every member is applicable in the pre-state (checked above) but the members do not commute: this is the
            # recorded finding KF-CONVERTER-INTERFERENCE (its interference test is vacuous); nothing else is attributed to it
            ctx.known_finding("KF-CONVERTER-INTERFERENCE", info)
            return False
        st = nxt
    if model.canon_state(st) != model.canon_state(final_seq):
        ctx.violation("convert:joint-plan-reaches-a-different-final-state", dict(wit, sequential=model.show_state(final_seq), joint=model.show_state(st)))
        return False
    return True


def numeric_targets(act, b):
    out = set()

    def go(e):
        if not isinstance(e, list) or not e:
            return
        if e[0] in model.UPD:
            out.add(tuple(model.subst(e[1], b)))
        elif e[0] in ("and", "when", "forall"):
            for x in e[1:]:
                go(x)

    go(act.eff or [])
    return out


def emulated_packing_hits_finding(wm, dom_m, st0, seq, agents, flag):
    """Emulation of the recorded finding KF-CONVERTER-INTERFERENCE: replay the converter's greedy pairing (a step is
    the next action, plus at most the action after it when that one belongs to another agent, is applicable in the
    step's pre-state, changes no numeric function the first one changes and - with the concurrency switch - shares no
    argument with it) under the reference model and report whether it packs a non-commuting pair."""
    st = st0
    k = 0
    while k < len(seq):
        an, c = seq[k]
        if k + 1 < len(seq):
            an2, c2 = seq[k + 1]
            ag1 = [p for p in c if p in agents][:1]
            ag2 = [p for p in c2 if p in agents][:1]
            try:
                app2 = model.successor(wm, dom_m.actions[an2], c2, st) is not None
            except (model.Outside, model.Inconsistent):
                app2 = False
            t1 = numeric_targets(dom_m.actions[an], model.binding(dom_m.actions[an], c))
            t2 = numeric_targets(dom_m.actions[an2], model.binding(dom_m.actions[an2], c2))
            if ag1 != ag2 and app2 and not (t1 & t2) and not (flag and set(c) & set(c2)):
                if magen.commuting(wm, dom_m, st, [(an, c), (an2, c2)]) is None:
                    return True
                st = magen.seq_apply(wm, dom_m, st, [(an, c), (an2, c2)])
                k += 2
                continue
        st = model.successor(wm, dom_m.actions[an], c, st)
        if st is None:
            return False
        k += 1
    return False


def gen_plan(rng, wm, dom_m, w, st0, length):
    st = st0
    seq = []
    for _ in range(length):
        cs = magen.applicable_calls(wm, dom_m, st)
        # prefer switching agents so that there is something to pack
        if seq and rng.random() < 0.7:
            other = [c for c in cs if c[1][0] != seq[-1][1][0]]
            cs = other or cs
        cs = [c for c in cs if set(c[2][1]) == set(st[1])]
        if not cs:
            break
        if seq and rng.random() < 0.4:
            # hostile bias: follow an action by one of another agent that writes a numeric function the first one writes too
            # (they must never share a joint step), or that reads what it writes
            pa, pc = seq[-1]
            t_prev = numeric_targets(dom_m.actions[pa], model.binding(dom_m.actions[pa], pc))
            clash = [c for c in cs if c[1][0] != pc[0] and numeric_targets(dom_m.actions[c[0]], model.binding(dom_m.actions[c[0]], c[1])) & t_prev]
            cs = clash or cs
        an, call, nxt = rng.choice(cs)
        seq.append((an, call))
        st = nxt
    return seq


def run(ctx):
    lib.assert_repo()
    from pddl_plus_parser.multi_agent import PlanConverter
    rng = ctx.rng("c15")
    thorough = ctx.tier == "thorough"
    for wi in range(24 if thorough else 8):
        w = magen.ma_world(rng)
        dtext = w.domain_text()
        try:
            dom = lib.parse_domain_text(dtext)
        except BaseException:
            ctx.count("refused:domain")
            continue
        dom_m = model.RefDomain.from_text(dtext)
        wm = model.World(dom_m, w.objects)
        for pi in range(8 if thorough else 4):
            st0 = magen.ma_initial_state(rng, w)
            ptext = sx.plain(w.problem_ast(st0))
            seq = gen_plan(rng, wm, dom_m, w, st0, rng.choice([2, 4, 8, 20, 40]) if thorough else rng.choice([2, 5, 12]))
            if len(seq) < 2:
                continue
            numbered = rng.random() < 0.5
            lines = [(f"{i}: " if numbered else "") + "(" + " ".join([an] + c) + ")" for i, (an, c) in enumerate(seq)]
            plan_path = Path(env.write_tmp("\n".join(lines) + "\n", suffix=".txt"))
            for flag in (True, False):
                if not ctx.next_case():
                    continue
                ctx.count("cases")
                wit = {"domain": dtext, "problem": ptext, "plan": lines, "agents": w.agents, "should_validate_concurrency_constraint": flag}
                try:
                    prob = lib.parse_problem_text(ptext, dom)
                    joint = PlanConverter(dom).convert_plan(prob, plan_path, list(w.agents), flag)
                except BaseException as e:
                    ctx.count("compared:conservation")
                    if isinstance(e, ValueError) and "not applicable" in str(e) and \
                            emulated_packing_hits_finding(wm, dom_m, st0, seq, list(w.agents), flag):
                        # the converter packed an interfering pair (recorded finding), its tracked state diverged
                        # from the plan's and it then refused a later action of the valid plan
                        ctx.known_finding("KF-CONVERTER-INTERFERENCE", dict(wit, observed=lib.exc_name(e),
                                                                            note="refusal after packing an interfering pair (emulated)"))
                    else:
                        ctx.violation("convert:raises-on-a-valid-plan", dict(wit, observed=lib.exc_name(e)))
                    continue
                ctx.feat({"concurrency-constraint:" + str(flag), "numbered" if numbered else "bare", "numeric" if w.funcs else "strips"})
                acting = {c[0] for _, c in seq}
                packed = any(sum(1 for a in j.actions if a.name != "nop") >= 2 for j in joint)
                if len(acting) >= 2 and packed:
                    ctx.nontrivial([dtext, ptext, lines, flag])
                ctx.count("joint_steps", len(joint))
                ctx.count("steps_with_2plus_members", sum(1 for j in joint if sum(1 for a in j.actions if a.name != "nop") >= 2))
                check_conversion(ctx, wm, dom_m, st0, seq, list(w.agents), joint, wit)
                if wi == 0 and pi == 0:
                    ctx.sample({"plan": lines[:10], "agents": w.agents, "joint_steps": len(joint)})
    shipped(ctx, PlanConverter)


SHIPPED = [
    ("multi_agent_tests/sokoban_domain.pddl", "multi_agent_tests/sokoban_problem.pddl", "multi_agent_tests/sokoban_plan.txt",
     ["player-01", "player-02"]),
    ("multi_agent_tests/combined_domain.pddl", "multi_agent_tests/combined_problem.pddl", "multi_agent_tests/woodworking_plan.txt",
     ["glazer0", "grinder0", "highspeed-saw0", "immersion-varnisher0", "planer0", "saw0", "spray-varnisher0"]),
    ("multi_agent_tests/depots_domain.pddl", "multi_agent_tests/depots_problem.pddl", "multi_agent_tests/depots_plan.txt",
     ["depot0", "depot1", "depot2", "depot3", "distributor0", "distributor1", "distributor2", "distributor3", "driver0", "driver1",
      "driver2", "driver3"]),
    ("multi_agent_tests/satellite_numeric_multi_agent/metricSat.pddl", "multi_agent_tests/satellite_numeric_multi_agent/pfile010.pddl",
     "multi_agent_tests/satellite_numeric_multi_agent/pfile010.solution", ["satellite0", "satellite1", "satellite2", "satellite3", "satellite4"]),
    ("multi_agent_tests/blocks_socs_experiment/original_domain.pddl", "multi_agent_tests/blocks_socs_experiment/original_problem_3.pddl",
     "multi_agent_tests/blocks_socs_experiment/sol.txt", ["a1", "a2", "a3"]),
]


def shipped(ctx, PlanConverter):
    rp = os.path.join(env.repo_path(), "tests")
    for j, (d, p, s, agents) in enumerate(SHIPPED):
        if j % ctx.nshards != ctx.shard:
            continue
        dp, pp, sp = (os.path.join(rp, x) for x in (d, p, s))
        if not all(os.path.exists(x) for x in (dp, pp, sp)):
            ctx.count("shipped_missing")
            continue
        try:
            dom_m = model.RefDomain.from_text(open(dp).read())
            prob_m = model.RefProblem.from_text(open(pp).read())
            wm = model.World(dom_m, prob_m.objects, constants_in_range=True)
            import re
            seq = []
            for m in re.finditer(r"\(([^()]*)\)", open(sp).read()):
                toks = m.group(1).lower().split()
                if toks:
                    seq.append((toks[0], toks[1:]))
            if agents is None:
                agents = guess_agents(dom_m, prob_m)
            st = prob_m.state()
            ok = True
            for an, c in seq:
                st = model.successor(wm, dom_m.actions[an], c, st)
                if st is None:
                    ok = False
                    break
            if not ok or not agents:
                ctx.count("shipped_plan_not_valid_in_model")
                continue
        except Exception as e:
            ctx.count("shipped_outside_model")
            ctx.notes.setdefault("shipped_outside_model", []).append([s, str(e)[:100]])
            continue
        for flag in (True, False):
            if not ctx.next_case():
                continue
            ctx.count("cases")
            wit = {"files": [d, p, s], "agents": agents, "should_validate_concurrency_constraint": flag}
            try:
                dom = lib.DomainParser(Path(dp)).parse_domain()
                prob = lib.ProblemParser(Path(pp), dom).parse_problem()
                joint = PlanConverter(dom).convert_plan(prob, Path(sp), list(agents), flag)
            except BaseException as e:
                ctx.count("compared:conservation")
                ctx.violation("convert:raises-on-a-valid-plan[shipped]", dict(wit, observed=lib.exc_name(e)))
                continue
            ctx.count("shipped_plans")
            ctx.nontrivial([s, flag])
            check_conversion(ctx, wm, dom_m, prob_m.state(), seq, list(agents), joint, wit)


def guess_agents(dom_m, prob_m):
    """objects of a type named like an agent type; else objects that appear as first argument of every action"""
    for tname in ("agent", "ag", "robot", "satellite", "truck", "player"):
        ags = [o for o, t in prob_m.objects.items() if dom_m.subtype(t, tname)] if tname in dom_m.type_names() else []
        if ags:
            return ags
    return []

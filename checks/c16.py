"""C16 - a joint action acts like its members applied one after another, in any order.

Monitor: apply_actions(domain, state, members, allow) for every permutation of the members and nop
padding at every position vs the reference model (sequential application in every order gives one
state s*); refusal when a member is inapplicable; MultiAgentTrajectoryExporter.parse_plan / export:
one step per joint action, chained, each post-state = s*."""
import inspect
import itertools

from vlib import sx, lib, model, gen, magen, probe, env

RULE = ("joint actions of 1-4 members (one per agent) that are all applicable and commute in the reference model, over "
        "generated multi-agent STRIPS / numeric worlds (incl. conditional and universal effects) x reachable states, every "
        "permutation of the members, nop padding at every position (incl. the single-member shortcut, [nop] alone); negative "
        "cases with exactly one inapplicable member at each position, with and without allow_inapplicable_actions; joint "
        "plans through the multi-agent exporter; a case = (state, member set); distinct by state + members; non-trivial "
        "when >= 2 members or a member has a conditional / universal effect")
DECISIVE = ["compared:joint"]
DECISIVE_EACH = ["compared:joint", "compared:refusal", "compared:exporter", "compared:nop"]
ASSUMPTIONS = ["'do not interfere' is decided by the model: every member applicable in the state and all orders of sequential application defined and equal",
               "apply_actions is given the problem's objects when its signature accepts them"]
SHARDS = {"quick": 16, "thorough": 16}


def call_apply_actions(dom, state_obj, calls, objs, allow=False):
    from pddl_plus_parser.multi_agent.common import apply_actions
    from pddl_plus_parser.models import ActionCall
    acs = [ActionCall(name=c[0], grounded_parameters=list(c[1:])) for c in calls]
    kw = {}
    if "problem_objects" in inspect.signature(apply_actions).parameters:
        kw["problem_objects"] = objs
    return apply_actions(dom, state_obj, acs, allow_inapplicable_actions=allow, **kw)


def has_cond(dom_m, members):
    for an, _ in members:
        if any(isinstance(e, list) and e and e[0] in ("when", "forall") for e in (dom_m.actions[an].eff or [])[1:]):
            return True
    return False


def run(ctx):
    lib.assert_repo()
    from pddl_plus_parser.multi_agent import MultiAgentTrajectoryExporter
    rng = ctx.rng("c16")
    thorough = ctx.tier == "thorough"
    for wi in range(24 if thorough else 3):
        w = magen.ma_world(rng)
        dtext = w.domain_text()
        try:
            dom = lib.parse_domain_text(dtext)
        except BaseException:
            ctx.count("refused:domain")
            continue
        dom_m = model.RefDomain.from_text(dtext)
        wm = model.World(dom_m, w.objects)
        sf = lib.StateFactory(dom, w.name, w.objects)
        objs = sf.objects_table()
        st = magen.ma_initial_state(rng, w)
        joint_lines, joint_expected = [], []
        st_plan0 = st
        for step in range(16 if thorough else 8):
            members = magen.random_joint(rng, wm, dom_m, w, st, max_members=rng.choice([1, 2, 3, 4]))
            if not members:
                break
            if not ctx.next_case():
                st = magen.commuting(wm, dom_m, st, members)
                continue
            ctx.count("cases")
            s_star = magen.commuting(wm, dom_m, st, members)
            wit = {"domain": dtext, "objects": w.objects, "state": model.show_state(st), "members": [[an] + c for an, c in members],
                   "expected": model.show_state(s_star)}
            if len(members) >= 2 or has_cond(dom_m, members):
                ctx.nontrivial([dtext, model.canon_state(st), sorted(map(str, members))])
            ctx.feat({f"members:{len(members)}"} | ({"conditional-or-universal-member"} if has_cond(dom_m, members) else set()))
            perms = list(itertools.permutations(members))
            if len(perms) > (24 if thorough else 6):
                perms = rng.sample(perms, 24 if thorough else 6)
            ok = True
            for perm in perms:
                calls = [[an] + c for an, c in perm]
                variants = [calls]
                for pos in range(len(calls) + 1):
                    variants.append(calls[:pos] + [["nop"]] + calls[pos:])
                for v in variants if thorough else variants[:3]:
                    try:
                        got = lib.read_state(call_apply_actions(dom, sf.state(st, fresh=True), v, objs))
                    except BaseException as e:
                        got = lib.exc_name(e)
                    ctx.count("compared:joint")
                    if ["nop"] in v:
                        ctx.count("compared:nop")
                    if isinstance(got, str) or probe.state_diff(s_star, got):
                        kind = "raises" if isinstance(got, str) else "result-differs-from-sequential-application"
                        tag = "[nop-padded]" if ["nop"] in v and not isinstance(got, str) and not probe.state_diff(s_star, lib_try(dom, sf, st, calls, objs)) else ""
                        ctx.violation(f"joint:{kind}{tag}", dict(wit, order=v, observed=got if isinstance(got, str) else model.show_state(got),
                                                                  diff=None if isinstance(got, str) else probe.state_diff(s_star, got)))
                        ok = False
                        break
                if not ok:
                    break
            # nop alone / only nops: nothing changes
            for v in ([["nop"]], [["nop"], ["nop"]]):
                try:
                    got = lib.read_state(call_apply_actions(dom, sf.state(st, fresh=True), v, objs))
                except BaseException as e:
                    got = lib.exc_name(e)
                ctx.count("compared:nop")
                ctx.count("compared:joint")
                if isinstance(got, str) or probe.state_diff(st, got):
                    ctx.violation("joint:nop-only-joint-action-" + ("raises" if isinstance(got, str) else "changes-the-state"),
                                  dict(wit, order=v, observed=got if isinstance(got, str) else model.show_state(got)))
            # refusal: replace one member by an inapplicable call of the same agent
            bad = inapplicable_call(rng, wm, dom_m, st, members)
            if bad is not None:
                pos, bad_member = bad
                calls = [[an] + c for an, c in members]
                calls[pos] = [bad_member[0]] + bad_member[1]
                for allow in (False, True):
                    try:
                        call_apply_actions(dom, sf.state(st, fresh=True), calls, objs, allow=allow)
                        raised = False
                    except BaseException:
                        raised = True
                    ctx.count("compared:refusal")
                    if not allow and not raised:
                        ctx.violation("joint:inapplicable-member-not-refused" + ("[single-member]" if len(calls) == 1 else ""),
                                      dict(wit, joint=calls, inapplicable_position=pos))
                    if allow and raised:
                        ctx.violation("joint:raises-although-inapplicable-actions-were-allowed", dict(wit, joint=calls, inapplicable_position=pos))
                # the same through the trajectory exporter, whose allowance is given per call (the exporter object
                # itself is built with its default setting, and once with the opposite constructor setting)
                if step % 2 == 0:
                    bad_line = magen.joint_line(w, [(c[0], c[1:]) for c in calls])
                    try:
                        prob_bad = lib.parse_problem_text(sx.plain(w.problem_ast(st)), dom)
                    except BaseException:
                        prob_bad = None
                    for ctor_allow in ((False, True) if prob_bad is not None else ()):
                        for allow in (False, True):
                            try:
                                MultiAgentTrajectoryExporter(dom, allow_invalid_actions=ctor_allow).parse_plan(
                                    prob_bad, action_sequence=[bad_line], allow_inapplicable_actions=allow)
                                raised = False
                            except BaseException:
                                raised = True
                            ctx.count("compared:refusal")
                            ctx.count("compared:refusal-through-exporter")
                            info = dict(wit, joint=calls, inapplicable_position=pos, exporter_built_with_allow_invalid_actions=ctor_allow,
                                        parse_plan_allow_inapplicable_actions=allow)
                            if not allow and not raised and not ctor_allow:
                                ctx.violation("exporter:inapplicable-member-not-refused", info)
                            if allow and raised:
                                ctx.violation("exporter:raises-although-inapplicable-actions-were-allowed-for-the-call", info)
                            if ctor_allow and raised:
                                # allowed when the exporter was built (the single-agent exporter honours the same setting)
                                ctx.violation("exporter:raises-although-the-exporter-was-built-to-allow-inapplicable-actions", info)
            joint_lines.append(magen.joint_line(w, members))
            joint_expected.append(s_star)
            st = s_star
            if wi == 0 and step == 0:
                ctx.sample({"members": wit["members"], "state": wit["state"], "permutations": len(perms)})
        # ---- the joint plan through the exporter -----------------------------------------------
        if joint_lines:
            # steps in which nobody acts (every slot a nop), at any position including the first: the state stays
            for _ in range(rng.choice([0, 1, 1, 2])):
                pos = rng.randint(0, len(joint_lines))
                joint_lines.insert(pos, magen.joint_line(w, []))
                joint_expected.insert(pos, joint_expected[pos - 1] if pos else st_plan0)
                ctx.count("joint_steps_with_only_nops")
            ptext = sx.plain(w.problem_ast(st_plan0))
            try:
                prob = lib.parse_problem_text(ptext, dom)
                ex = MultiAgentTrajectoryExporter(dom)
                # planners print plans in upper case; names are case-insensitive in PDDL
                shown = [ln.upper() if rng.random() < 0.25 else ln for ln in joint_lines]
                if shown != joint_lines:
                    ctx.count("joint_plans_with_upper_case_lines")
                trip = ex.parse_plan(prob, action_sequence=shown)
                lines = ex.export(trip)
                tree = sx.read("".join(lines))
            except BaseException as e:
                ctx.count("compared:exporter")
                ctx.violation("exporter:joint-plan-raises", {"domain": dtext, "problem": ptext, "plan": joint_lines, "observed": lib.exc_name(e)})
                continue
            ctx.count("compared:exporter")
            wit = {"domain": dtext, "problem": ptext, "plan": joint_lines}
            if len(trip) != len(joint_lines) or len(tree) != 2 * len(joint_lines) + 1:
                ctx.violation("exporter:steps-differ-from-joint-actions", dict(wit, steps=len(trip), text_items=len(tree)))
                continue
            heads = [tree[0][0]] + [tree[2 * i + 2][0] for i in range(len(joint_lines))]
            if heads != [":init"] + [":state"] * len(joint_lines):
                ctx.violation("exporter:state-headers-are-not-one-init-followed-by-states", dict(wit, headers=heads))
                continue
            prev = st_plan0
            for i, (t, exp) in enumerate(zip(trip, joint_expected)):
                ctx.count("compared:exporter")
                pre, post = lib.read_state(t.previous_state), lib.read_state(t.next_state)
                if probe.state_diff(prev, pre):
                    ctx.violation("exporter:joint-trajectory-is-not-chained", dict(wit, step=i, diff=probe.state_diff(prev, pre)))
                    break
                if probe.state_diff(exp, post):
                    ctx.violation("exporter:joint-step-post-state-differs", dict(wit, step=i, diff=probe.state_diff(exp, post)))
                    break
                if probe.state_diff(post, model.read_state_ast(tree[2 * i + 2])) or tree[2 * i + 1][0] != "operators:":
                    ctx.violation("exporter:exported-text-differs-from-history", dict(wit, step=i))
                    break
                prev = exp


def lib_try(dom, sf, st, calls, objs):
    try:
        return lib.read_state(call_apply_actions(dom, sf.state(st, fresh=True), calls, objs))
    except BaseException:
        return (frozenset(), {})


def inapplicable_call(rng, wm, dom_m, st, members):
    """(position, (action, call)) with the same executing agent, inapplicable in st, such that the others stay as they are"""
    order = list(range(len(members)))
    rng.shuffle(order)
    for pos in order:
        agent = members[pos][1][0]
        cands = []
        for an, act in dom_m.actions.items():
            for call in model.type_correct_calls(wm, act):
                if not call or call[0] != agent:
                    continue
                try:
                    if model.successor(wm, act, call, st) is None:
                        cands.append((an, list(call)))
                except (model.Outside, model.Inconsistent):
                    continue
        if cands:
            # prefer a call that the OTHER members would enable (inapplicable now, applicable once they have been
            # applied): a refusal test on the accumulated state instead of the current one lets exactly these through
            others = [m for i, m in enumerate(members) if i != pos]
            st_after = magen.seq_apply(wm, dom_m, st, others) if others else None
            enabled = []
            if st_after is not None:
                for an, call in cands:
                    try:
                        if model.successor(wm, dom_m.actions[an], call, st_after) is not None:
                            enabled.append((an, call))
                    except (model.Outside, model.Inconsistent):
                        pass
            if enabled and rng.random() < 0.8:
                return pos, rng.choice(enabled)
            return pos, rng.choice(cands)
    return None

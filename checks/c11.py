"""C11 - the S-expression reader returns the text's parenthesis structure, all of it.

Monitor: every PDDLTokenizer(...).parse() call made by the workload is compared with the
reference reader on the same characters (result or raise).  Bare-atom top-level inputs are not judged;
bare CR line ends are judged like LF and CR LF (universal newlines)."""
import itertools
import os
from pathlib import Path

from vlib import env, sx, lib, selftest

RULE = ("token trees (exhaustive up to a node bound over a 3-token alphabet, random up to 300 tokens) rendered "
        "under hostile layouts (spaces, tabs, LF/CRLF, comments with parentheses/semicolons at line start, line "
        "end and between tokens, mixed case), read in file and in string mode, plus every single parenthesis "
        "deletion/insertion of each plain rendering and every shipped .pddl/.trajectory/.solution file; a case is "
        "distinct by its exact text+mode and non-trivial when the reference reading has nesting depth >= 2 or the "
        "text is malformed")
DECISIVE = ["compared"]
DECISIVE_EACH = ["compared:file", "compared:str", "compared:malformed"]
EXHAUSTIVE = "all token trees with <= N nodes over the alphabet {a, b-1, ?x} (N=5 quick, sampled at the bound / N=7 thorough)"
ASSUMPTIONS = ["reference reader vlib.sx.read is the specification (validated by round-trip self-test)",
               "bare-atom top-level inputs are outside the statement"]
SHARDS = {"quick": 8, "thorough": 16}

ALPHA = ["a", "b-1", "?x"]


def all_trees(n):
    """all token trees (lists) with exactly n nodes; a node is a list or an atom"""
    if n == 1:
        yield []
        return
    # children sequences whose total node count is n-1
    def seqs(k):
        if k == 0:
            yield []
            return
        for first in range(1, k + 1):
            for head in nodes(first):
                for rest in seqs(k - first):
                    yield [head] + rest

    def nodes(k):
        if k == 1:
            for a in ALPHA:
                yield a
            yield []
            return
        for s in seqs(k - 1):
            yield s

    for s in seqs(n - 1):
        yield s


def depth(t):
    if isinstance(t, str):
        return 0
    return 1 + max([depth(x) for x in t], default=0)


def lib_parse(text, mode):
    if mode == "file":
        p = env.write_tmp(text, name="c11.pddl")
        return lib.PDDLTokenizer(file_path=Path(p)).parse()
    return lib.PDDLTokenizer(pddl_str=text).parse()


def judge(ctx, text, mode, origin, expected_tree=None):
    """one monitored parse() call"""
    if "\r" in text.replace("\r\n", ""):
        ctx.count("texts_with_bare_cr_line_ends")
    if sx.is_bare_atom_input(text):
        ctx.count("skipped_bare_atom")
        return
    try:
        ref = sx.read(text)
        ref_err = None
    except sx.ReadError as e:
        ref, ref_err = None, str(e)
    if expected_tree is not None and ref != expected_tree:
        ctx.count("generator_disagrees_with_reference")  # would be a bug in my renderer
        ctx.violation("harness:renderer-vs-reference", {"text": text})
        return
    try:
        got = lib_parse(text, mode)
        err = None
    except BaseException as e:  # any exception is a rejection
        got, err = None, lib.exc_name(e)
    ctx.count("compared")
    ctx.count("compared:" + mode)
    key = (text, mode)
    if ref_err is not None:
        ctx.count("compared:malformed")
        ctx.nontrivial(key)
        if err is None:
            # classify the mechanism by what the library returned
            try:
                first = sx.read_first(text)
            except Exception:
                first = object()
            mech = "malformed-accepted:trailing-material-ignored" if got == first else "malformed-accepted:other"
            ctx.violation(mech, {"text": text, "mode": mode, "origin": origin, "reference": "reject: " + ref_err,
                                 "observed": got})
        return
    if depth(ref) >= 2:
        ctx.nontrivial(key)
    if err is not None:
        ctx.violation("wellformed-rejected", {"text": text, "mode": mode, "origin": origin, "expected": ref, "observed": err})
    elif got != ref:
        mech = "wrong-structure"
        if "\t" in text and mode == "str":
            try:
                if got == sx.read(text.replace("\t", "")):
                    mech = "wrong-structure:tabs-deleted-in-string-mode"
            except Exception:
                pass
        ctx.violation(mech, {"text": text, "mode": mode, "origin": origin, "expected": ref, "observed": got})


def paren_edits(text):
    """every single-parenthesis deletion and insertion"""
    for i, ch in enumerate(text):
        if ch in "()":
            yield text[:i] + text[i + 1:]
    for i in range(len(text) + 1):
        for ch in "()":
            yield text[:i] + ch + text[i:]


def shipped_files():
    root = os.path.join(env.repo_path(), "tests")
    out = []
    for d, _, fs in os.walk(root):
        for f in fs:
            if f.endswith((".pddl", ".trajectory", ".solution")) or (f.startswith("test_") and "." not in f):
                out.append(os.path.join(d, f))
    return sorted(out)


def run(ctx):
    lib.assert_repo()
    rng = ctx.rng("c11")
    thorough = ctx.tier == "thorough"
    # ---- part 1: bounded-exhaustive trees -------------------------------------------
    nmax = 7 if thorough else 5
    idx = 0
    for n in range(1, nmax + 1):
        for t in all_trees(n):
            idx += 1
            if idx % ctx.nshards != ctx.shard:
                continue
            if not thorough and n == nmax and rng.random() > 0.25:
                continue
            if not ctx.next_case():
                continue
            ctx.count("cases")
            ctx.count("exhaustive_blocks")
            plain = sx.plain(t)
            layouts = [plain]
            for k in range((3 if n <= 6 else 1) if thorough else 2):
                layouts.append(sx.render(t, rng, hostile=rng.choice([0.3, 0.7, 1.0]), upper=rng.choice([0, 0.5]),
                                         crlf=rng.choice([False, False, True, "cr"])))
            for txt in layouts:
                for mode in ("file", "str"):
                    judge(ctx, txt, mode, "exhaustive-tree", expected_tree=t)
            if n <= (5 if thorough else 4) or rng.random() < 0.2:
                for ed in paren_edits(plain):
                    judge(ctx, ed, rng.choice(["file", "str"]), "paren-edit")
            if idx % 400 == 0:
                ctx.sample({"tree": t, "text": layouts[-1]})
    # ---- part 2: random larger trees ---------------------------------------------------
    n_rand = 600 if thorough else 120
    for i in range(n_rand):
        if not ctx.next_case():
            continue
        ctx.count("cases")
        t = selftest.rand_tree(rng, rng.choice([5, 12, 40, 120, 300]))
        if isinstance(t, str):
            t = [t]
        txt = sx.render(t, rng, hostile=rng.choice([0.1, 0.4, 0.9]), upper=rng.choice([0, 0.3, 1.0]),
                        crlf=rng.choice([False, False, True, "cr"]))
        for mode in ("file", "str"):
            judge(ctx, txt, mode, "random-tree", expected_tree=t)
        plain = sx.plain(t)
        eds = list(paren_edits(plain))
        for ed in rng.sample(eds, min(len(eds), 30)):
            judge(ctx, ed, rng.choice(["file", "str"]), "paren-edit")
        # trailing material of several kinds
        for tail in [" (c d)", " x", ")", "\n(a)\n", " ; only a comment"]:
            judge(ctx, txt + tail, rng.choice(["file", "str"]), "trailing")
        if i == 0:
            ctx.sample({"text": txt[:400], "expected_tokens": len(sx.tokens(txt))})
    # ---- part 3: shipped files ---------------------------------------------------------
    files = shipped_files()
    for j, fp in enumerate(files):
        if j % ctx.nshards != ctx.shard:
            continue
        if not ctx.next_case():
            continue
        ctx.count("cases")
        ctx.count("shipped_files")
        with open(fp, "rt", encoding="utf-8", errors="replace") as f:
            txt = f.read()
        try:
            sx.read(txt)
        except sx.ReadError:
            # plans and some fixtures are not single S-expressions; only well-formed files are judged here
            ctx.count("shipped_not_single_form")
            continue
        judge(ctx, txt, "file", "shipped:" + os.path.relpath(fp, env.repo_path()))
        judge(ctx, txt, "str", "shipped:" + os.path.relpath(fp, env.repo_path()))

"""refpddl - an independent executable reference model of the PDDL 2.1 level-2 fragment.

Never imports the repository.  Exact arithmetic (fractions.Fraction).  Works directly on the
S-expression trees produced by vlib.sx.read, so "the model's reading of a text" is well defined
for every text.

State  = (frozenset of ground atoms as tuples of str, dict ground fluent tuple -> Fraction)
"""
from fractions import Fraction
from itertools import product
from typing import Dict, List, Tuple, Optional, Iterable

from . import sx

CMP = ("<", "<=", ">", ">=", "=")
ARITH = ("+", "-", "*", "/")
UPD = ("assign", "increase", "decrease", "scale-up", "scale-down")


class ModelError(Exception):
    """the text is outside what the model can interpret (malformed for the model)"""


class Outside(Exception):
    """the evaluation left the property's quantifier (undefined fluent, division by zero, ...)"""


def is_num(tok) -> bool:
    if not isinstance(tok, str):
        return False
    try:
        to_frac(tok)
        return True
    except Exception:
        return False


def to_frac(tok: str) -> Fraction:
    # accepts 7 -2.50 .5 1e3 -0.125
    try:
        return Fraction(tok)
    except Exception:
        from decimal import Decimal
        return Fraction(Decimal(tok))


def typed_list(items: list, allow_either: bool = True) -> List[Tuple[str, object]]:
    """'a b - t c - (either u v) d' -> [(a,t),(b,t),(c,('either','u','v')),(d,'object')]"""
    out, group = [], []
    i = 0
    while i < len(items):
        it = items[i]
        if it == "-":
            if i + 1 >= len(items):
                raise ModelError("dangling '-'")
            ty = items[i + 1]
            if isinstance(ty, list):
                if not allow_either or not ty or ty[0] != "either":
                    raise ModelError("bad type expression")
                ty = tuple(ty)
            out.extend((g, ty) for g in group)
            group = []
            i += 2
            continue
        if isinstance(it, list):
            raise ModelError("unexpected list in typed list")
        group.append(it)
        i += 1
    out.extend((g, "object") for g in group)
    return out


class RefAction:
    def __init__(self, name, params, pre, eff):
        self.name = name
        self.params: List[Tuple[str, object]] = params
        self.pre = pre  # AST or None (absent) ; [] is the empty precondition '()'
        self.eff = eff


class RefDomain:
    def __init__(self):
        self.name = None
        self.requirements: List[str] = []
        self.parent: Dict[str, str] = {}  # type -> parent ('object' root has no entry)
        self.constants: Dict[str, str] = {}
        self.predicates: Dict[str, List[Tuple[str, object]]] = {}
        self.functions: Dict[str, List[Tuple[str, object]]] = {}
        self.actions: Dict[str, RefAction] = {}
        self.has_types_section = False

    # ---- construction -------------------------------------------------------------
    @classmethod
    def from_text(cls, text: str) -> "RefDomain":
        return cls.from_ast(sx.read(text))

    @classmethod
    def from_ast(cls, ast) -> "RefDomain":
        d = cls()
        if not isinstance(ast, list) or not ast or ast[0] != "define":
            raise ModelError("no define")
        for sec in ast[1:]:
            if not isinstance(sec, list) or not sec:
                raise ModelError("bad section")
            h = sec[0]
            if h == "domain":
                d.name = sec[1]
            elif h == ":requirements":
                d.requirements = list(sec[1:])
            elif h == ":types":
                d.has_types_section = True
                for child, par in typed_list(sec[1:]):
                    if isinstance(par, tuple):
                        raise ModelError("either in :types")
                    if child == "object":
                        continue
                    d.parent[child] = par
                    if par != "object":
                        d.parent.setdefault(par, "object")
                # a later explicit declaration of a parent wins over the implicit 'object'
                for child, par in typed_list(sec[1:]):
                    if child != "object" and par != "object":
                        d.parent[child] = par
            elif h == ":constants":
                for n, t in typed_list(sec[1:]):
                    d.constants[n] = t
            elif h == ":predicates":
                for p in sec[1:]:
                    if p and p[0] == ":private":
                        for q in p[1:]:
                            if isinstance(q, list):
                                d.predicates[q[0]] = typed_list(q[1:])
                        continue
                    d.predicates[p[0]] = typed_list(p[1:])
            elif h == ":functions":
                # (:functions (f ?x - t) (g) - number ...)
                items = [x for x in sec[1:]]
                i = 0
                while i < len(items):
                    it = items[i]
                    if it == "-":
                        i += 2
                        continue
                    d.functions[it[0]] = typed_list(it[1:])
                    i += 1
            elif h == ":action":
                name = sec[1]
                kv = {}
                i = 2
                while i < len(sec):
                    kv[sec[i]] = sec[i + 1] if i + 1 < len(sec) else None
                    i += 2
                params = typed_list(kv.get(":parameters", []) or [])
                d.actions[name] = RefAction(name, params, kv.get(":precondition"), kv.get(":effect"))
            else:
                pass  # :process, :event, :derived ... not modelled
        return d

    # ---- types -----------------------------------------------------------------------
    def type_names(self):
        return set(self.parent) | {"object"}

    def ancestors(self, t: str):
        seen = [t]
        while t in self.parent and self.parent[t] not in seen:
            t = self.parent[t]
            seen.append(t)
        if "object" not in seen:
            seen.append("object")
        return seen

    def subtype(self, a, b) -> bool:
        """is a (a declared type name) a subtype of b (name or ('either', ...))"""
        if isinstance(b, tuple):
            return any(self.subtype(a, x) for x in b[1:])
        if isinstance(a, tuple):
            return all(self.subtype(x, b) for x in a[1:])
        return b in self.ancestors(a)


class RefProblem:
    def __init__(self):
        self.name = None
        self.domain_name = None
        self.objects: Dict[str, object] = {}
        self.atoms = set()
        self.fluents: Dict[tuple, Fraction] = {}
        self.goal = None
        self.init_order: list = []

    @classmethod
    def from_text(cls, text: str) -> "RefProblem":
        return cls.from_ast(sx.read(text))

    @classmethod
    def from_ast(cls, ast) -> "RefProblem":
        p = cls()
        if ast[0] != "define":
            raise ModelError("no define")
        for sec in ast[1:]:
            h = sec[0]
            if h == "problem":
                p.name = sec[1]
            elif h == ":domain":
                p.domain_name = sec[1]
            elif h == ":objects":
                flat = []
                for it in sec[1:]:
                    if isinstance(it, list) and it and it[0] == ":private":
                        for n, t in typed_list(it[1:]):
                            p.objects[n] = t
                    else:
                        flat.append(it)
                for n, t in typed_list(flat):
                    p.objects[n] = t
            elif h == ":init":
                for f in sec[1:]:
                    if f[0] == "=" and len(f) == 3 and isinstance(f[1], list):
                        p.fluents[tuple(f[1])] = to_frac(f[2])
                    else:
                        p.atoms.add(tuple(f))
                    p.init_order.append(f)
            elif h == ":goal":
                p.goal = sec[1]
        return p

    def state(self):
        return frozenset(self.atoms), dict(self.fluents)


def read_state_text(text: str):
    """independent reading of '(:state (= (f a) 1.0) (p a) (z ))' -> (atoms, fluents)"""
    ast = sx.read(text)
    return read_state_ast(ast)


def read_state_ast(ast):
    if not ast or ast[0] not in (":state", ":init"):
        raise ModelError("not a state")
    atoms, fl = set(), {}
    for f in ast[1:]:
        if f[0] == "=" and len(f) == 3 and isinstance(f[1], list):
            k = tuple(f[1])
            if k in fl:
                raise ModelError(f"fluent listed twice {k}")
            fl[k] = to_frac(f[2])
        else:
            atoms.add(tuple(f))
    return frozenset(atoms), fl


def canon_state(st):
    atoms, fl = st
    return (tuple(sorted(atoms)), tuple(sorted((k, str(v)) for k, v in fl.items())))


def show_state(st) -> str:
    atoms, fl = st
    parts = ["(" + " ".join(a) + ")" for a in sorted(atoms)]
    parts += [f"(= ({' '.join(k)}) {v})" for k, v in sorted(fl.items())]
    return " ".join(parts)


# ------------------------------------------------------------------------------------------
# evaluation
# ------------------------------------------------------------------------------------------
class World:
    """domain + object table.  Quantifiers range over the problem's objects AND the domain's constants (PDDL: constants
    are objects of every problem of the domain)"""

    def __init__(self, dom: RefDomain, objects: Dict[str, object], constants_in_range: bool = True):
        self.dom = dom
        self.objects = dict(objects)
        self.range_objects = dict(objects)
        if constants_in_range:
            self.range_objects.update(dom.constants)
        self.all_objects = dict(dom.constants)
        self.all_objects.update(objects)

    def of_type(self, ty) -> List[str]:
        return [o for o, t in self.range_objects.items() if self.dom.subtype(t, ty)]


def subst(term, b: Dict[str, str]):
    if isinstance(term, str):
        return b.get(term, term)
    return [subst(t, b) for t in term]


def num_eval(w: World, e, st, b) -> Fraction:
    atoms, fl = st
    if isinstance(e, str):
        if is_num(e):
            return to_frac(e)
        raise ModelError(f"bad numeric leaf {e}")
    if not e:
        raise ModelError("empty numeric expression")
    h = e[0]
    if h in ARITH and not (h == "-" and len(e) == 1) and h not in w.dom.functions:
        args = [num_eval(w, x, st, b) for x in e[1:]]
        if h == "-":
            if len(args) == 1:
                return -args[0]
            if len(args) != 2:
                raise ModelError("n-ary minus")
            return args[0] - args[1]
        if h == "/":
            if len(args) != 2:
                raise ModelError("n-ary division")
            if args[1] == 0:
                raise Outside("division by zero")
            return args[0] / args[1]
        if len(args) < 2:
            raise ModelError("arity of + / *")
        acc = args[0]
        for a in args[1:]:
            acc = acc + a if h == "+" else acc * a
        return acc
    if h in w.dom.functions:
        k = tuple(subst(e, b))
        if len(k) - 1 != len(w.dom.functions[h]):
            raise ModelError("fluent arity")
        if k not in fl:
            raise Outside(f"undefined fluent {k}")
        return fl[k]
    raise ModelError(f"unknown numeric head {h}")


def is_numeric_term(w: World, t) -> bool:
    return isinstance(t, list) or is_num(t)


def holds(w: World, f, st, b: Dict[str, str]) -> bool:
    atoms, fl = st
    if f is None or f == []:
        return True
    if isinstance(f, str):
        raise ModelError("bare atom formula")
    h = f[0]
    if h == "and":
        return all([holds(w, x, st, b) for x in f[1:]])
    if h == "or":
        return any([holds(w, x, st, b) for x in f[1:]])
    if h == "not":
        if len(f) != 2:
            raise ModelError("not arity")
        return not holds(w, f[1], st, b)
    if h == "imply":
        if len(f) != 3:
            raise ModelError("imply arity")
        return (not holds(w, f[1], st, b)) or holds(w, f[2], st, b)
    if h in ("forall", "exists"):
        if len(f) != 3:
            raise ModelError("quantifier arity")
        vs = typed_list(f[1])
        doms = [w.of_type(t) for _, t in vs]
        res = []
        for combo in product(*doms):
            b2 = dict(b)
            b2.update({v: o for (v, _), o in zip(vs, combo)})
            res.append(holds(w, f[2], st, b2))
        return all(res) if h == "forall" else any(res)
    if h == "=" and len(f) == 3 and not is_numeric_term(w, f[1]) and not is_numeric_term(w, f[2]):
        return subst(f[1], b) == subst(f[2], b)
    if h in CMP:
        if len(f) != 3:
            raise ModelError("comparison arity")
        l = num_eval(w, f[1], st, b)
        r = num_eval(w, f[2], st, b)
        return {"<": l < r, "<=": l <= r, ">": l > r, ">=": l >= r, "=": l == r}[h]
    if h in w.dom.predicates:
        if len(f) - 1 != len(w.dom.predicates[h]):
            raise ModelError("atom arity")
        return tuple(subst(f, b)) in atoms
    raise ModelError(f"unknown formula head {h}")


def cmp_margins(w: World, f, st, b) -> List[Fraction]:
    """absolute |lhs-rhs| of every numeric comparison evaluated inside f (for boundary skipping)"""
    out = []

    def go(f, b):
        if not isinstance(f, list) or not f:
            return
        h = f[0]
        if h in ("and", "or", "not", "imply", "when"):
            for x in f[1:]:
                go(x, b)
        elif h in ("forall", "exists"):
            vs = typed_list(f[1])
            for combo in product(*[w.of_type(t) for _, t in vs]):
                b2 = dict(b)
                b2.update({v: o for (v, _), o in zip(vs, combo)})
                go(f[2], b2)
        elif h in CMP and len(f) == 3 and (is_numeric_term(w, f[1]) or is_numeric_term(w, f[2])):
            try:
                out.append(abs(num_eval(w, f[1], st, b) - num_eval(w, f[2], st, b)))
            except Outside:
                pass

    go(f, b)
    return out


class Inconsistent(Exception):
    pass


def collect_effects(w: World, eff, st, b, group=(0,), out=None):
    """returns lists adds[(atom, group)], dels[(atom, group)], nums[(op, fluent, value, group)]
    every condition and right-hand side is evaluated in st (the pre-state)."""
    if out is None:
        out = ([], [], [])
    adds, dels, nums = out
    if eff is None or eff == []:
        return out
    h = eff[0]
    if h == "and":
        for i, e in enumerate(eff[1:]):
            sub = group
            if isinstance(e, list) and e and e[0] in ("when", "forall"):
                sub = group + (i + 1,)
            collect_effects(w, e, st, b, sub, out)
    elif h == "not":
        if len(eff) != 2 or not isinstance(eff[1], list) or eff[1][0] not in w.dom.predicates:
            raise ModelError("bad delete effect")
        if len(eff[1]) - 1 != len(w.dom.predicates[eff[1][0]]):
            raise ModelError("atom arity")
        dels.append((tuple(subst(eff[1], b)), group))
    elif h == "when":
        if len(eff) != 3:
            raise ModelError("when arity")
        if holds(w, eff[1], st, b):
            collect_effects(w, eff[2], st, b, group, out)
    elif h == "forall":
        if len(eff) != 3:
            raise ModelError("forall arity")
        vs = typed_list(eff[1])
        for combo in product(*[w.of_type(t) for _, t in vs]):
            b2 = dict(b)
            b2.update({v: o for (v, _), o in zip(vs, combo)})
            collect_effects(w, eff[2], st, b2, group + tuple(combo), out)
    elif h in UPD:
        if len(eff) != 3:
            raise ModelError("update arity")
        tgt = tuple(subst(eff[1], b))
        if tgt[0] not in w.dom.functions or len(tgt) - 1 != len(w.dom.functions[tgt[0]]):
            raise ModelError("bad update target")
        nums.append((h, tgt, num_eval(w, eff[2], st, b), group))
    elif h in w.dom.predicates:
        if len(eff) - 1 != len(w.dom.predicates[h]):
            raise ModelError("atom arity")
        adds.append((tuple(subst(eff, b)), group))
    else:
        raise ModelError(f"unknown effect head {h}")
    return out


def successor(w: World, act: RefAction, args: List[str], st, check_pre: bool = True):
    """PDDL successor; raises Inconsistent / Outside when the case leaves the quantifier.
    returns None if check_pre and the precondition is false."""
    b = {p: a for (p, _), a in zip(act.params, args)}
    if check_pre and not holds(w, act.pre, st, b):
        return None
    atoms, fl = st
    adds, dels, nums = collect_effects(w, act.eff, st, b)
    addset = {}
    for a, g in adds:
        addset.setdefault(a, set()).add(g)
    delset = {}
    for a, g in dels:
        delset.setdefault(a, set()).add(g)
    for a in set(addset) & set(delset):
        if addset[a] != delset[a] or len(addset[a]) != 1:
            raise Inconsistent(f"atom {a} added and deleted by different effect groups")
    # several increase / decrease updates of one fluent are additive (PDDL 2.1): their changes accumulate, whatever the order;
    # an assign or a scaling next to any other update of the same fluent is inconsistent
    by_target = {}
    for op, tgt, v, g in nums:
        by_target.setdefault(tgt, []).append((op, v))
    seen = {}
    for tgt, ups in by_target.items():
        if len(ups) == 1:
            seen[tgt] = ups[0]
        elif all(op in ("increase", "decrease") for op, _ in ups):
            seen[tgt] = ("increase", sum((v if op == "increase" else -v) for op, v in ups))
        else:
            raise Inconsistent(f"fluent {tgt} updated twice, not only by increase / decrease")
    new_atoms = (set(atoms) - set(delset)) | set(addset)
    new_fl = dict(fl)
    for tgt, (op, v) in seen.items():
        if op == "assign":
            new_fl[tgt] = v
            continue
        if tgt not in fl:
            raise Outside(f"update of undefined fluent {tgt}")
        old = fl[tgt]
        if op == "increase":
            new_fl[tgt] = old + v
        elif op == "decrease":
            new_fl[tgt] = old - v
        elif op == "scale-up":
            new_fl[tgt] = old * v
        elif op == "scale-down":
            if v == 0:
                raise Outside("scale-down by zero")
            new_fl[tgt] = old / v
    return frozenset(new_atoms), new_fl


def binding(act: RefAction, args) -> Dict[str, str]:
    return {p: a for (p, _), a in zip(act.params, args)}


def type_correct_calls(w: World, act: RefAction, include_constants: bool = True) -> List[Tuple[str, ...]]:
    pool = dict(w.objects)
    if include_constants:
        pool.update(w.dom.constants)
    doms = [[o for o, t in pool.items() if w.dom.subtype(t, pt)] for _, pt in act.params]
    return [tuple(c) for c in product(*doms)]


# ---- grounding as substitution (C20) ---------------------------------------------------------
def ground_literals(w: World, f, b, quantified=frozenset()):
    """literals (sign, atom) and numeric conditions occurring in a precondition, substituted;
    sub-formulas that mention a quantified variable are skipped."""
    lits, nums, eqs = [], [], []

    def mentions(t, names):
        if isinstance(t, str):
            return t in names
        return any(mentions(x, names) for x in t)

    def go(f, q, pos=True):
        if not isinstance(f, list) or not f:
            return
        h = f[0]
        if h in ("and", "or"):
            for x in f[1:]:
                go(x, q, pos)
        elif h == "not":
            inner = f[1]
            if isinstance(inner, list) and inner and inner[0] == "=" and not is_numeric_term(w, inner[1]):
                if not mentions(inner, q):
                    eqs.append(("!=", subst(inner[1], b), subst(inner[2], b)))
            elif isinstance(inner, list) and inner and inner[0] in w.dom.predicates:
                if not mentions(inner, q):
                    lits.append((False, tuple(subst(inner, b))))
            else:
                go(inner, q, not pos)
        elif h in ("forall", "exists"):
            return  # quantified conditions stay lifted: outside C20's statement
        elif h == "=" and len(f) == 3 and not is_numeric_term(w, f[1]) and not is_numeric_term(w, f[2]):
            if not mentions(f, q):
                eqs.append(("=", subst(f[1], b), subst(f[2], b)))
        elif h in CMP:
            if not mentions(f, q):
                nums.append(canon_expr(subst(f, b)))
        elif h in w.dom.predicates:
            if not mentions(f, q):
                lits.append((True, tuple(subst(f, b))))

    go(f, frozenset(quantified))
    return lits, nums, eqs


def canon_expr(e):
    """hashable canonical form of a numeric expression/condition: numerals as Fractions"""
    if isinstance(e, str):
        return ("#", str(to_frac(e))) if is_num(e) else e
    return tuple(canon_expr(x) for x in e)


# ---- defect emulation for the open known finding KF-REPEATED-ARGS ---------------------------------
def collapse_args(args):
    """the library's name-keyed signature: distinct objects in first-occurrence order"""
    out = []
    for a in args:
        if a not in out:
            out.append(a)
    return out


def repeats_first(args):
    """how a stored fluent is printed back: every repeated object (count > 1) `count` times, in first-
    occurrence order, followed by the non-repeated objects in order"""
    from collections import Counter
    c = Counter(args)
    out = []
    for a in collapse_args(args):
        if c[a] > 1:
            out += [a] * c[a]
    out += [a for a in collapse_args(args) if c[a] == 1]
    return out


def emulate_fluent_store(ordered_items):
    """ordered_items: [(key tuple, value)] in text order -> {printed key: value} as the library stores them"""
    store = {}
    for k, v in ordered_items:
        store[(k[0],) + tuple(collapse_args(k[1:]))] = ((k[0],) + tuple(repeats_first(k[1:])), v)
    return {pk: v for pk, v in store.values()}


def has_repeat(k):
    return len(set(k[1:])) < len(k[1:])

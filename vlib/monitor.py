"""Boundary instrumentation on the real classes (pre/post contracts installed from outside).

attach() wraps the library's public entry points; every wrapped call is bracketed by
 - a `purity` contract: the canonical digests (vlib.digest) of every registered live object
   (domains, problems, every state handed in or returned so far, module globals) must be the same
   after the call as before, except for objects the call is meant to produce;
 - a `reader` contract on PDDLTokenizer.parse (result or raise vs the reference reader);
 - a `state-laws` contract on State.copy.
Contracts record and continue (they never raise into the code under test) and count their
evaluations; a deciding contract with 0 evaluations makes a run inconclusive.
The wrappers are plain pre/post wrappers rather than icontract decorators: the conditions need
the whole registry, not only the call's arguments, and must never raise (see DESIGN 2.3)."""
import functools
import threading

from . import digest, sx

_lock = threading.RLock()


class Monitor:
    def __init__(self, sink=None):
        self.sink = sink  # object with .violation(mech, witness) and .count(key)
        self.live = {}  # id -> [label, obj, digest]
        self.depth = threading.local()
        self.installed = []
        self.evals = {}
        self.enabled = True
        self.current_history = None

    # ---- registry ----------------------------------------------------------------------
    def register(self, obj, label):
        with _lock:
            if id(obj) not in self.live:
                self.live[id(obj)] = [label, obj, digest.digest(obj)]

    def refresh(self, obj):
        with _lock:
            if id(obj) in self.live:
                self.live[id(obj)][2] = digest.digest(obj)

    def forget_all(self):
        with _lock:
            self.live.clear()

    def snapshot_inputs(self, args):
        with _lock:
            for x in args:
                n = type(x).__name__
                if n in ("State", "Domain", "Problem") and id(x) not in self.live:
                    self.live[id(x)] = [n + "#argument", x, None]
                elif n == "Operator":
                    for y in (getattr(x, "domain", None),):
                        if y is not None and id(y) not in self.live:
                            self.live[id(y)] = ["Domain#of-operator", y, None]
            for rec in self.live.values():
                rec[2] = digest.digest(rec[1])

    def count(self, key, n=1):
        self.evals[key] = self.evals.get(key, 0) + n
        if self.sink is not None:
            self.sink.count("contract:" + key, n)

    def check_all(self, opname, exempt=()):
        """the purity postcondition"""
        changed = []
        with _lock:
            for oid, rec in list(self.live.items()):
                if oid in exempt:
                    continue
                label, obj, old = rec
                new = digest.digest(obj)
                if new != old:
                    changed.append((label, digest.first_difference(old, new)))
                    rec[2] = new
        self.count("purity")
        if changed and self.sink is not None:
            for label, diff in changed[:3]:
                kind = label.split("#")[0]
                self.sink.violation(f"purity:{kind}-modified-by:{opname}",
                                    {"call": opname, "object": label, "first_difference": diff,
                                     "history": list(self.current_history or [])[-12:]})
        return changed

    # ---- wrapping ------------------------------------------------------------------------
    def _wrap(self, owner, name, opname, post=None, register_result=None, exempt_args=None, product_exempt=False):
        raw = owner.__dict__.get(name) if hasattr(owner, "__dict__") else None
        is_static = isinstance(raw, staticmethod)
        is_class = isinstance(raw, classmethod)
        orig = raw.__func__ if (is_static or is_class) else getattr(owner, name)
        restore = raw if (is_static or is_class) else orig
        mon = self

        @functools.wraps(orig)
        def wrapper(*a, **kw):
            if not mon.enabled:
                return orig(*a, **kw)
            d = getattr(mon.depth, "v", 0)
            if d == 0:
                # pre-snapshot: inputs handed in become live objects; all digests are taken *now*, so that the
                # contract compares the two ends of this one call (hand edits between calls are not blamed)
                mon.snapshot_inputs(list(a) + list(kw.values()))
            mon.depth.v = d + 1
            try:
                res = orig(*a, **kw)
            except BaseException:
                mon.depth.v = d
                if d == 0:
                    mon.check_all(opname + "(raised)")
                raise
            mon.depth.v = d
            if d == 0:
                if register_result is not None:
                    try:
                        register_result(mon, res, a, kw)
                    except Exception:
                        pass
                ex = ()
                if product_exempt and id(res) in mon.live:
                    # the object a parser is meant to produce (calling parse_*() twice on one parser object fills the
                    # same result object again: that is the parser's business, not a purity violation of C07's calls)
                    mon.live[id(res)][2] = digest.digest(res)
                if exempt_args is not None:
                    try:
                        ex = tuple(id(x) for x in exempt_args(a, kw))
                    except Exception:
                        ex = ()
                    for x in ex:
                        if x in mon.live:
                            mon.live[x][2] = digest.digest(mon.live[x][1])
                mon.check_all(opname, exempt=ex)
            if post is not None:
                try:
                    post(mon, res, a, kw)
                except Exception:
                    pass
            return res

        setattr(owner, name, staticmethod(wrapper) if is_static else (classmethod(wrapper) if is_class else wrapper))
        self.installed.append((owner, name, restore))

    def attach(self):
        import pddl_plus_parser.models as M
        import pddl_plus_parser.models.pddl_operator as OP
        import pddl_plus_parser.models.grounded_effect as GE
        import pddl_plus_parser.models.pddl_state as ST
        import pddl_plus_parser.models.pddl_precondition as PR
        import pddl_plus_parser.models.pddl_action as AC
        import pddl_plus_parser.exporters as EX
        import pddl_plus_parser.lisp_parsers as LP
        import pddl_plus_parser.multi_agent as MA
        import pddl_plus_parser.multi_agent.common as MC

        def reg_state(mon, res, a, kw):
            if type(res).__name__ == "State":
                mon.register(res, f"State#returned")

        def reg_domain(mon, res, a, kw):
            if type(res).__name__ in ("Domain", "Problem"):
                mon.register(res, type(res).__name__ + "#parsed")

        def reg_triplets(mon, res, a, kw):
            for t in res or []:
                for nm in ("previous_state", "next_state"):
                    s = getattr(t, nm, None)
                    if s is not None:
                        mon.register(s, "State#trajectory")

        for nm in ("ground", "is_applicable"):
            self._wrap(OP.Operator, nm, "Operator." + nm)
        self._wrap(OP.Operator, "apply", "Operator.apply", register_result=reg_state)
        self._wrap(GE.GroundedEffect, "apply", "GroundedEffect.apply",
                   exempt_args=lambda a, kw: [a[1] if len(a) > 1 else kw.get("state")])
        self._wrap(ST.State, "copy", "State.copy", post=_copy_law)
        self._wrap(ST.State, "serialize", "State.serialize")
        self._wrap(ST.State, "typed_serialize", "State.typed_serialize")
        self._wrap(PR.Precondition, "print", "Precondition.print")
        self._wrap(PR.Precondition, "__str__", "Precondition.__str__")
        self._wrap(AC.Action, "effects_to_pddl", "Action.effects_to_pddl")
        self._wrap(EX.DomainExporter, "extract_domain", "DomainExporter.extract_domain")
        self._wrap(EX.ProblemExporter, "extract_problem", "ProblemExporter.extract_problem")
        self._wrap(EX.TrajectoryExporter, "parse_plan", "TrajectoryExporter.parse_plan", register_result=reg_triplets)
        self._wrap(EX.TrajectoryExporter, "export", "TrajectoryExporter.export")
        self._wrap(LP.DomainParser, "parse_domain", "DomainParser.parse_domain", register_result=reg_domain, product_exempt=True)
        self._wrap(LP.ProblemParser, "parse_problem", "ProblemParser.parse_problem", register_result=reg_domain)
        self._wrap(LP.TrajectoryParser, "parse_trajectory", "TrajectoryParser.parse_trajectory")
        self._wrap(LP.PDDLTokenizer, "parse", "PDDLTokenizer.parse", post=None)
        self._wrap(MA.MultiAgentDomainsConverter, "locate_domains", "MultiAgentDomainsConverter.locate_domains", register_result=reg_domain)
        self._wrap(MA.MultiAgentProblemsConverter, "combine_problems", "MultiAgentProblemsConverter.combine_problems", register_result=reg_domain)
        self._wrap(MA.PlanConverter, "convert_plan", "PlanConverter.convert_plan")
        self._wrap(MA.MultiAgentTrajectoryExporter, "parse_plan", "MultiAgentTrajectoryExporter.parse_plan", register_result=reg_triplets)
        # apply_actions is re-exported by name: patch every module that holds a reference
        import sys
        orig = MC.apply_actions
        for modname, mod in list(sys.modules.items()):
            if modname.startswith("pddl_plus_parser") and getattr(mod, "apply_actions", None) is orig:
                self._wrap(mod, "apply_actions", "apply_actions", register_result=reg_state)
        # module globals are live objects too
        import pddl_plus_parser.models.pddl_domain as PD
        import pddl_plus_parser.models.pddl_type as PT
        self.register(PD.DEFAULT_TYPES, "module-global#DEFAULT_TYPES")
        self.register(PT.ObjectType, "module-global#ObjectType")
        return self

    def detach(self):
        for owner, name, orig in reversed(self.installed):
            setattr(owner, name, orig)
        self.installed = []


def _copy_law(mon, res, a, kw):
    """state-laws contract: a copy has the same value as the original"""
    src = a[0]
    mon.count("state-copy-law")
    if digest.d_state_value(src) != digest.d_state_value(res) and mon.sink is not None:
        mon.sink.violation("state-laws:copy-differs-from-original",
                           {"original": str(digest.d_state_value(src))[:600], "copy": str(digest.d_state_value(res))[:600]})

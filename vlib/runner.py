"""One CLI for all checks: shard fan-out, three-valued verdicts, known findings, evidence.

check <ID> --tier quick|thorough        run (parent: fans out shards as subprocesses)
check <ID> --replay <file>              re-execute one recorded case
check <ID> --shard i/n --out f          (internal) one shard
check selftest                          oracle self-test

Exit codes: 0 held (possibly with KNOWN-FINDING lines), 1 violated, 2 inconclusive.
"""
import argparse
import hashlib
import importlib
import json
import os
import random
import subprocess
import sys
import time
import traceback

from . import env

HERE = env.HERE
EVID = os.environ.get("VERIF_EVIDENCE_DIR") or os.path.join(HERE, "evidence")  # redirected by the mutation self-test
REPLAY = os.path.join(EVID, "replay")
KF_FILE = os.path.join(HERE, "known_findings.json")
MAX_VIOLATION_LINES = 20
MAX_WITNESSES_PER_MECH = 3


def h64(obj) -> int:
    s = obj if isinstance(obj, str) else json.dumps(obj, sort_keys=True, default=str)
    return int.from_bytes(hashlib.blake2b(s.encode(), digest_size=8).digest(), "big")


class CaseTimeout(BaseException):
    """raised inside a case that runs longer than CASE_LIMIT_S (see Ctx.next_case)"""


CASE_LIMIT_S = int(os.environ.get("VERIF_CASE_LIMIT_S", "120"))


class Ctx:
    """what a shard sees: seeds, counters, violation / known-finding / sample recording"""

    def __init__(self, pid, tier, seed, shard, nshards, params=None):
        self.pid, self.tier, self.seed, self.shard, self.nshards = pid, tier, seed, shard, nshards
        self.params = params or {}
        self.counters = {}
        self.distinct = set()
        self.violations = []  # {mechanism, witness}
        self.known = []  # {kf, witness}
        self.samples = []
        self.notes = {}
        self.case_index = -1
        self.only_case = None  # replay: run just this case index
        self.sets = {}
        self.timed_out = False
        self._alarm_installed = False
        self._t_start = time.time()

    def rng(self, *salt) -> random.Random:
        return random.Random(h64([self.pid, self.seed, self.shard, list(salt)]))

    def count(self, key, n=1):
        self.counters[key] = self.counters.get(key, 0) + n

    def feat(self, tags, n=1):
        for t in tags:
            self.count("feature:" + t, n)

    def nontrivial(self, key):
        self.distinct.add(h64(key))

    def seen(self, name, key):
        """named sets of distinct observations (iteration orders, interleavings, ...)"""
        self.sets.setdefault(name, set()).add(h64(key))

    def sample(self, case, limit=4):
        if len(self.samples) < limit:
            self.samples.append(case)

    def over_budget(self) -> bool:
        """True once this shard has used its share of wall-clock time (VERIF_SHARD_BUDGET_S; default 600 s quick, 2400 s
        thorough): the outer workload loops of the sympy-heavy checks stop generating new domains then, so that one
        shard with slow-to-print conditions cannot run into the watchdog (= inconclusive).  Coverage shrinks, verdicts
        do not change; the stop is counted."""
        budget = float(os.environ.get("VERIF_SHARD_BUDGET_S", "600" if self.tier == "quick" else "2400"))
        if time.time() - self._t_start > budget:
            self.count("stopped_on_shard_time_budget")
            return True
        return False

    def _on_alarm(self, signum, frame):
        # one case ran for CASE_LIMIT_S: the library's printing goes through a symbolic simplifier whose running time
        # explodes on rare expressions.  The case is abandoned and counted - it is neither a violation nor evidence;
        # whatever the interrupted code reports for this case afterwards is discarded.
        self.timed_out = True
        self.count("case_time_limit_reached")
        import signal
        signal.setitimer(signal.ITIMER_REAL, CASE_LIMIT_S)  # the abandoned case gets one more period to unwind
        raise CaseTimeout(f"case {self.case_index} exceeded {CASE_LIMIT_S}s")

    def violation(self, mechanism, witness):
        if self.timed_out:
            self.count("discarded_after_case_time_limit")
            return
        self.count("violations_raw")
        n = sum(1 for v in self.violations if v["mechanism"] == mechanism)
        if n < MAX_WITNESSES_PER_MECH:
            w = dict(witness)
            w.setdefault("case_ref", self.case_ref())
            self.violations.append({"mechanism": mechanism, "witness": w})
        self.count("violation:" + mechanism)

    def known_finding(self, kf_id, witness):
        if self.timed_out:
            return
        self.count("known:" + kf_id)
        n = sum(1 for v in self.known if v["kf"] == kf_id)
        if n < 2:
            w = dict(witness)
            w.setdefault("case_ref", self.case_ref())
            self.known.append({"kf": kf_id, "witness": w})

    def case_ref(self):
        return {"property": self.pid, "tier": self.tier, "seed": self.seed, "shard": self.shard,
                "nshards": self.nshards, "case_index": self.case_index, "params": self.params}

    def next_case(self) -> bool:
        """call at the top of every case loop (numbers the cases of a shard; a replay re-runs the whole shard - cases
        share one seeded random stream, so skipping any would change the others - and then picks its case by index)"""
        self.case_index += 1
        self.timed_out = False
        try:
            import signal
            import threading
            if threading.current_thread() is threading.main_thread():
                if not self._alarm_installed:
                    signal.signal(signal.SIGALRM, self._on_alarm)
                    self._alarm_installed = True
                signal.setitimer(signal.ITIMER_REAL, CASE_LIMIT_S)
        except (ValueError, OSError, AttributeError):
            pass
        return True

    def result(self):
        return {"counters": self.counters, "distinct": sorted(self.distinct), "violations": self.violations,
                "known": self.known, "samples": self.samples, "notes": self.notes,
                "sets": {k: sorted(v) for k, v in self.sets.items()}}


def load_module(pid):
    return importlib.import_module(f"checks.{pid.lower()}")


def load_kf():
    try:
        with open(KF_FILE) as f:
            data = json.load(f)
    except FileNotFoundError:
        return {}
    return {e["id"]: e for e in data.get("findings", [])}


def run_shard(pid, tier, seed, shard, nshards, out, params=None, only_case=None):
    sys.path.insert(0, HERE)
    env.ensure_deps()
    mod = load_module(pid)
    ctx = Ctx(pid, tier, seed, shard, nshards, params)
    ctx.only_case = only_case
    t0 = time.time()
    status = "ok"
    try:
        mod.run(ctx)
    except CaseTimeout as e:
        # the abandoned case was not caught inside the check: the rest of this shard's workload is not run.  What was
        # observed before stands; the truncation is recorded (and more than a few of them make the run inconclusive).
        ctx.count("shard_truncated_by_case_time_limit")
        ctx.notes["case_time_limit"] = str(e)
    except BaseException as e:  # a crash of the harness itself is inconclusive, never a verdict
        status = "crash"
        ctx.notes["crash"] = "".join(traceback.format_exception(type(e), e, e.__traceback__))[-4000:]
    finally:
        try:
            import signal
            signal.setitimer(signal.ITIMER_REAL, 0)
        except (ValueError, OSError, AttributeError):
            pass
    res = ctx.result()
    res["status"] = status
    res["wall_s"] = time.time() - t0
    if out:
        with open(out, "wt") as f:
            json.dump(res, f, default=str)
    return res


def shard_plan(mod, tier, seed):
    """list of (shard_index, nshards, env overrides, params)"""
    if hasattr(mod, "plan"):
        return mod.plan(tier, seed)
    n = getattr(mod, "SHARDS", {}).get(tier, 16)
    return [(i, n, {}, {}) for i in range(n)]


def main(argv=None):
    ap = argparse.ArgumentParser()
    ap.add_argument("pid")
    ap.add_argument("--tier", default=os.environ.get("VERIF_TIER", "quick"), choices=["quick", "thorough"])
    ap.add_argument("--replay")
    ap.add_argument("--shard")
    ap.add_argument("--out")
    ap.add_argument("--params", default="{}")
    ap.add_argument("--jobs", type=int, default=int(os.environ.get("VERIF_JOBS", "16")))
    a = ap.parse_args(argv)
    seed = int(os.environ.get("VERIF_SEED", "0"))
    sys.path.insert(0, HERE)
    if a.pid == "selftest":
        from . import selftest
        return selftest.main()
    pid = a.pid.upper()
    if a.shard:
        i, n = a.shard.split("/")
        run_shard(pid, a.tier, seed, int(i), int(n), a.out, json.loads(a.params))
        return 0
    if a.replay:
        return replay(pid, a.replay)
    return run_check(pid, a.tier, seed, a.jobs)


def replay(pid, path):
    with open(path) as f:
        rec = json.load(f)
    ref = rec["witness"]["case_ref"]
    os.environ["VERIF_SEED"] = str(ref["seed"])
    envv = dict(os.environ)
    envv.update(rec.get("env", {}))
    if envv.get("PYTHONHASHSEED") != os.environ.get("PYTHONHASHSEED"):
        # re-exec under the recorded hash seed
        os.environ.update(rec.get("env", {}))
        os.execve(sys.executable, [sys.executable, os.path.join(HERE, "check"), pid, "--replay", path], os.environ)
    global MAX_WITNESSES_PER_MECH
    MAX_WITNESSES_PER_MECH = 10 ** 6  # keep every witness of the shard so that the recorded case can be found again
    res = run_shard(ref["property"], ref["tier"], ref["seed"], ref["shard"], ref["nshards"], None, ref.get("params"))
    print(f"replay of {path}: mechanism recorded = {rec['mechanism']}; re-running shard {ref['shard']}/{ref['nshards']} "
          f"(tier {ref['tier']}, seed {ref['seed']}) and looking for case {ref['case_index']}")
    print(json.dumps(rec["witness"], indent=1, default=str)[:3000])
    same = [v for v in res["violations"] if v["witness"].get("case_ref", {}).get("case_index") == ref["case_index"]]
    known_same = [k for k in res["known"] if k["witness"].get("case_ref", {}).get("case_index") == ref["case_index"]]
    if same or known_same:
        for v in same:
            print("REPRODUCED violation:", v["mechanism"])
            print(json.dumps(v["witness"], indent=1, default=str)[:3000])
        for k in known_same:
            print("REPRODUCED known finding:", k["kf"])
        return 1 if same else 0
    other = sorted({v["mechanism"] for v in res["violations"]})
    if other:
        print("the recorded case did not fail again; other violations in the same shard:", other[:5])
        return 1
    print("not reproduced on this tree (status=%s)" % res["status"])
    if res["status"] != "ok":
        print(res["notes"].get("crash", ""))
        return 2
    return 0


def run_check(pid, tier, seed, jobs):
    t0 = time.time()
    env.ensure_deps()
    mod = load_module(pid)
    os.makedirs(REPLAY, exist_ok=True)
    # oracle self-test first: if it fails, nothing the check says is believed
    from . import selftest
    st_ok, st_info = selftest.quick()
    plan = shard_plan(mod, tier, seed)
    env.sweep_stale_scratch()
    tmpd = env.scratch()
    procs, results = [], []
    pending = list(plan)
    running = []
    watchdog = getattr(mod, "WATCHDOG_S", {}).get(tier, 1500 if tier == "quick" else 7200)
    while pending or running:
        while pending and len(running) < jobs:
            (i, n, envo, params) = pending.pop(0)
            out = os.path.join(tmpd, f"{pid}-{i}-{n}-{len(results) + len(running)}.json")
            e = dict(os.environ)
            e.setdefault("PYTHONHASHSEED", "0")
            e["VERIF_SEED"] = str(seed)
            e["TMPDIR"] = tmpd  # shard scratch lives inside the parent's: a killed shard leaves nothing behind
            e.update({k: str(v) for k, v in envo.items()})
            cmd = [sys.executable, os.path.join(HERE, "check"), pid, "--tier", tier, "--shard", f"{i}/{n}",
                   "--out", out, "--params", json.dumps(params)]
            p = subprocess.Popen(cmd, env=e, stdout=subprocess.PIPE, stderr=subprocess.STDOUT, cwd=HERE)
            running.append((p, out, time.time(), (i, n, envo, params)))
        time.sleep(0.05)
        still = []
        for (p, out, ts, meta) in running:
            rc = p.poll()
            if rc is None:
                if time.time() - ts > watchdog:
                    p.kill()
                    results.append({"status": "watchdog", "meta": meta, "counters": {}, "distinct": [],
                                    "violations": [], "known": [], "samples": [], "notes": {}, "sets": {}})
                else:
                    still.append((p, out, ts, meta))
                continue
            txt = p.stdout.read().decode(errors="replace")
            try:
                with open(out) as f:
                    r = json.load(f)
                os.unlink(out)
            except Exception:
                r = {"status": "crash", "counters": {}, "distinct": [], "violations": [], "known": [],
                     "samples": [], "notes": {"crash": txt[-3000:]}, "sets": {}}
            r["meta"] = meta
            r["stdout"] = txt[-2000:]
            results.append(r)
        running = still
    return finish(pid, tier, seed, mod, results, st_ok, st_info, t0)


def finish(pid, tier, seed, mod, results, st_ok, st_info, t0):
    counters, distinct, sets = {}, set(), {}
    violations, known, samples, notes = [], [], [], []
    bad = []
    for r in results:
        for k, v in r["counters"].items():
            counters[k] = counters.get(k, 0) + v
        distinct.update(r["distinct"])
        for k, v in r.get("sets", {}).items():
            sets.setdefault(k, set()).update(v)
        envo = r["meta"][2] if "meta" in r else {}
        for v in r["violations"]:
            v["env"] = envo
            violations.append(v)
        for k in r["known"]:
            k["env"] = envo
            known.append(k)
        for s in r["samples"]:
            if len(samples) < 5:
                samples.append(s)
        for k, v in r.get("notes", {}).items():
            if k != "crash" and len(notes) < 12 and k not in [n[0] for n in notes]:
                notes.append((k, v))
        if r["status"] != "ok":
            bad.append({"status": r["status"], "shard": r.get("meta", [None])[0],
                        "detail": (r.get("notes", {}).get("crash") or r.get("stdout", ""))[-1500:]})
    kf = load_kf()
    lines = []
    # known findings: honoured only when listed as open
    kf_hit = {}
    for k in known:
        ent = kf.get(k["kf"])
        if ent is not None and ent.get("status") == "open" and pid in ent.get("properties", [ent.get("property")]):
            kf_hit.setdefault(k["kf"], []).append(k)
        else:
            violations.append({"mechanism": "unlisted-or-fixed-finding:" + k["kf"], "witness": k["witness"],
                               "env": k.get("env", {})})
    for kid, ks in sorted(kf_hit.items()):
        n = counters.get("known:" + kid, len(ks))
        lines.append(f"KNOWN-FINDING: property={pid} {kid}: {kf[kid]['what']} (observed {n}x this run)")
    # violations -> replay files
    vio_files = []
    by_mech = {}
    for v in violations:
        by_mech.setdefault(v["mechanism"], []).append(v)
    for fn in os.listdir(REPLAY):
        if fn.startswith(pid + "-"):
            try:
                os.unlink(os.path.join(REPLAY, fn))
            except OSError:
                pass
    n = 0
    for mech, vs in sorted(by_mech.items()):
        for v in vs[:2]:
            if n >= MAX_VIOLATION_LINES:
                break
            n += 1
            path = os.path.join(REPLAY, f"{pid}-{n}.json")
            with open(path, "wt") as f:
                json.dump({"property": pid, "mechanism": mech, "witness": v["witness"], "env": v.get("env", {})},
                          f, indent=1, default=str)
            vio_files.append(path)
            lines.append(f"VIOLATION property={pid} replay={path}")
            lines.append(f"  mechanism: {mech}")
    decisive = sum(counters.get(k, 0) for k in getattr(mod, "DECISIVE", ["compared"]))
    per_monitor_zero = [k for k in getattr(mod, "DECISIVE_EACH", []) if counters.get(k, 0) == 0]
    verdict = "held"
    reason = ""
    if vio_files:
        verdict = "violated"
    elif not st_ok:
        verdict, reason = "inconclusive", "oracle self-test failed: " + str(st_info)[:300]
    elif bad:
        verdict, reason = "inconclusive", f"{len(bad)} shard(s) did not finish: {bad[0]['status']}"
    elif decisive == 0 or per_monitor_zero:
        verdict, reason = "inconclusive", "deciding monitor never evaluated: " + ",".join(per_monitor_zero or ["compared"])
    elif counters.get("case_time_limit_reached", 0) > max(5, counters.get("cases", 0) // 200):
        # a handful of abandoned cases is the simplifier's running time; many of them mean the workload did not run
        verdict, reason = "inconclusive", f"{counters['case_time_limit_reached']} cases reached the per-case time limit"
    wall = time.time() - t0
    evaluations = counters.get("cases", 0) or decisive
    cov = {
        "evaluations": int(evaluations),
        "distinct_nontrivial": len(distinct),
        "rule": getattr(mod, "RULE", ""),
        "samples": samples or [{"note": "no sample recorded"}],
        "decisive_comparisons": int(decisive),
        "counters": {k: v for k, v in sorted(counters.items()) if not k.startswith("feature:")},
        "features_compared": {k[8:]: v for k, v in sorted(counters.items()) if k.startswith("feature:")},
        "distinct_observed": {k: len(v) for k, v in sets.items()},
        "known_findings_hit": {k: counters.get("known:" + k, len(v)) for k, v in kf_hit.items()},
        "oracle_selftest": st_info,
        "notes": {k: v for k, v in notes},
        "shards": len(results),
        "shards_not_ok": bad[:3],
        "verdict": verdict,
        "inconclusive_reason": reason,
    }
    if getattr(mod, "EXHAUSTIVE", None) and counters.get("exhaustive_blocks", 0):
        cov["exhaustive_part"] = getattr(mod, "EXHAUSTIVE")
    ev = {"property_id": pid, "tier": tier, "seed": seed, "level": "exploration", "coverage": cov,
          "assumptions": getattr(mod, "ASSUMPTIONS", []), "wall_s": round(wall, 2), "violations": len(vio_files)}
    os.makedirs(EVID, exist_ok=True)
    with open(os.path.join(EVID, f"{pid}.json"), "wt") as f:
        json.dump(ev, f, indent=1, default=str)
    for ln in lines:
        print(ln)
    print(f"{pid} {tier} seed={seed}: {verdict} - cases={evaluations} decisive={decisive} "
          f"distinct_nontrivial={len(distinct)} known={sum(len(v) for v in kf_hit.values())} wall={wall:.1f}s")
    if verdict == "inconclusive":
        print(f"INCONCLUSIVE property={pid} reason={reason}")
        for b in bad[:2]:
            print(b["detail"])
        return 2
    return 1 if verdict == "violated" else 0

"""Seeded generators with feature accounting.  One grammar, many views.

A generated world is plain data (types, constants, predicates, functions, objects) from which
domain / problem ASTs are built and rendered to text; the AST is the ground truth, the text is
what the library gets.  Nothing here imports the repository.
"""
import random
from fractions import Fraction
from itertools import product, permutations
from typing import Dict, List, Tuple

from . import sx, model

OBJ_NAMES = ["ob", "ob1", "ob-1", "ob_x", "b2", "c-3", "dd", "e_5"]
CONST_NAMES = ["k0", "k-1"]


class W:
    """a generated vocabulary + universe"""

    def __init__(self):
        self.name = "dom"
        self.types: List[Tuple[str, str]] = []  # (child, parent) parents first
        self.constants: Dict[str, str] = {}
        self.preds: Dict[str, List[Tuple[str, str]]] = {}
        self.funcs: Dict[str, List[Tuple[str, str]]] = {}
        self.objects: Dict[str, str] = {}
        self.actions: List[dict] = []  # {name, params[(p,t)], pre, eff}
        self.requirements = [":strips", ":typing", ":negative-preconditions", ":equality",
                             ":disjunctive-preconditions", ":universal-preconditions",
                             ":numeric-fluents", ":conditional-effects"]
        self.features = set()

    # ---- type helpers ---------------------------------------------------------------
    def parent(self):
        return dict(self.types)

    def ancestors(self, t):
        par = self.parent()
        out = [t]
        while t in par:
            t = par[t]
            out.append(t)
        if "object" not in out:
            out.append("object")
        return out

    def subtype(self, a, b):
        return b in self.ancestors(a)

    def type_names(self):
        return [c for c, _ in self.types]

    def things_of(self, ty, with_constants=True):
        pool = dict(self.objects)
        if with_constants:
            pool.update(self.constants)
        return [o for o, t in pool.items() if self.subtype(t, ty)]

    # ---- ASTs ---------------------------------------------------------------------
    def types_items(self, style="plain", rng=None):
        """style plain: parents first, one 'c - p' per child"""
        items = []
        if style == "plain":
            for c, p in self.types:
                items += [c, "-", p]
            return items
        raise ValueError(style)

    @staticmethod
    def typed_items(pairs, style="single", rng=None):
        """[(n,t)] -> flat typed list.  single: 'n - t' each; grouped: runs of one type share a dash;
        object-typed trailing names may be left untyped when style == 'untyped_tail'"""
        items = []
        if style == "single":
            for n, t in pairs:
                items += [n, "-", t]
            return items
        i = 0
        while i < len(pairs):
            j = i
            while j + 1 < len(pairs) and pairs[j + 1][1] == pairs[i][1]:
                j += 1
            run = pairs[i:j + 1]
            if style == "untyped_tail" and j == len(pairs) - 1 and run[0][1] == "object":
                items += [n for n, _ in run]
            else:
                items += [n for n, _ in run] + ["-", run[0][1]]
            i = j + 1
        return items

    def domain_ast(self, param_style="single", types_items=None, sections=None, const_style="single"):
        secs = [["domain", self.name], [":requirements"] + self.requirements]
        if self.types or types_items is not None:
            secs.append([":types"] + (types_items if types_items is not None else self.types_items()))
        if self.constants:
            pairs = list(self.constants.items())
            if const_style == "untyped_tail":
                # root-typed constants last, written bare (a legal way to declare them)
                pairs = [x for x in pairs if x[1] != "object"] + [x for x in pairs if x[1] == "object"]
            secs.append([":constants"] + self.typed_items(pairs, const_style))
        secs.append([":predicates"] + [[n] + self.typed_items(ps, param_style) for n, ps in self.preds.items()])
        if self.funcs:
            secs.append([":functions"] + [[n] + self.typed_items(ps, "single") for n, ps in self.funcs.items()])
        for a in self.actions:
            secs.append([":action", a["name"], ":parameters", self.typed_items(a["params"], param_style),
                         ":precondition", a["pre"], ":effect", a["eff"]])
        return ["define"] + secs

    def domain_text(self, rng=None, hostile=0.0, upper=0.0, **kw):
        return sx.render(self.domain_ast(**kw), rng, hostile=hostile, upper=upper)

    def problem_ast(self, st, goal=None, name="prob", obj_style="single", rng=None):
        atoms, fl = st
        init = [list(a) for a in sorted(atoms)]
        init += [["=", list(k), frac_str(v)] for k, v in sorted(fl.items())]
        if rng is not None:
            rng.shuffle(init)
        return ["define", ["problem", name], [":domain", self.name],
                [":objects"] + self.typed_items(list(self.objects.items()), obj_style),
                [":init"] + init, [":goal", goal if goal is not None else ["and"]]]

    def ref_objects(self):
        return dict(self.objects)


def frac_str(v) -> str:
    v = Fraction(v)
    if v.denominator == 1:
        return str(v.numerator)
    dd, k2, k5 = v.denominator, 0, 0
    while dd % 2 == 0:
        dd //= 2
        k2 += 1
    while dd % 5 == 0:
        dd //= 5
        k5 += 1
    if dd == 1 and max(k2, k5) <= 12:
        return f"{float(v):.{max(k2, k5)}f}"
    return repr(float(v))


# ------------------------------------------------------------------------------------------
# vocabulary
# ------------------------------------------------------------------------------------------
def gen_types(rng, max_types=5, flat=False):
    """forest below object, parents first"""
    n = rng.randint(1, max_types)
    types = []
    for i in range(n):
        name = f"t{i}"
        if flat or i == 0 or rng.random() < 0.35:
            par = "object"
        else:
            par = rng.choice(types)[0]
        types.append((name, par))
    return types


def gen_world(rng, n_types=None, n_preds=None, n_funcs=None, n_consts=None, n_objs=None,
              numeric=True, max_arity=2, ensure_subtype=True, untyped=False, name_clash=0.0) -> W:
    w = W()
    if untyped:
        w.types = []
    else:
        w.types = gen_types(rng, n_types or 4)
        if ensure_subtype and not any(p != "object" for _, p in w.types):
            w.types.append((f"t{len(w.types)}", w.types[0][0]))
    tnames = [c for c, _ in w.types] or ["object"]
    pool = tnames + (["object"] if not untyped and rng.random() < 0.3 else [])
    # objects: at least one per leaf-ish type, 2..3 for a few
    n_objs = n_objs or rng.randint(3, 4)
    names = OBJ_NAMES[:]
    rng.shuffle(names)
    chosen_types = [rng.choice(tnames) for _ in range(n_objs)]
    # make sure a type with a declared subtype has an object of the subtype and one of its own
    for c, p in w.types:
        if p != "object" and len(chosen_types) >= 2:
            chosen_types[0], chosen_types[1] = c, p
            break
    for nm, ty in zip(names, chosen_types):
        w.objects[nm] = ty
    nc = rng.choice([0, 0, 1, 2]) if n_consts is None else n_consts
    for i in range(nc):
        # mostly declared types; now and then the root type itself
        w.constants[CONST_NAMES[i]] = "object" if (not untyped and rng.random() < 0.2) else rng.choice(tnames)
    np_ = n_preds or rng.randint(2, 4)
    pnames = ["p", "q", "p-q", "r_s", "pq"]
    for i in range(np_):
        ar = rng.choice([0, 1, 1, 2, 2, 3][: 2 + 2 * max_arity]) if i else 1
        ar = min(ar, max_arity)
        w.preds[pnames[i]] = [(f"?a{j}", rng.choice(pool)) for j in range(ar)]
    if numeric:
        nf = n_funcs if n_funcs is not None else rng.randint(1, 3)
        fnames = ["f", "g-h", "cost"]
        for i in range(nf):
            ar = rng.choice([0, 1, 1, 2] + ([3, 3] if max_arity >= 3 else []))
            ar = min(ar, max_arity)
            w.funcs[fnames[i]] = [(f"?a{j}", rng.choice(pool)) for j in range(ar)]
        if name_clash and rng.random() < name_clash:
            # predicates and functions have separate name spaces: a function named like a predicate, same parameters
            pn = rng.choice(list(w.preds))
            w.funcs[pn] = list(w.preds[pn])
    return w


def gen_params(rng, w: W, n=None):
    tnames = w.type_names() or ["object"]
    # now and then an action without parameters (its literals are over constants and zero-arity symbols only)
    n = (0 if rng.random() < 0.07 else rng.randint(1, 3)) if n is None else n
    params = []
    populated = [t for t in tnames if w.things_of(t, with_constants=False)] or tnames
    for i in range(n):
        params.append((f"?x{i}", rng.choice(populated)))
    return params


# ------------------------------------------------------------------------------------------
# formulas
# ------------------------------------------------------------------------------------------
def args_for(rng, w: W, sig, scope: List[Tuple[str, str]], use_constants=0.15, allow_repeat=False):
    """type-correct argument list for a predicate/function signature from scoped variables (+constants).
    returns None if impossible"""
    out = []
    for _, pt in sig:
        cands = [v for v, t in scope if w.subtype(t, pt)]
        consts = [c for c, t in w.constants.items() if w.subtype(t, pt)]
        if not allow_repeat:
            cands = [c for c in cands if c not in out] or ([] if consts else cands)
        pick = None
        if consts and (not cands or rng.random() < use_constants):
            pick = rng.choice(consts)
            if not allow_repeat and pick in out:
                pick = None
        if pick is None:
            if not cands:
                return None
            pick = rng.choice(cands)
            if not allow_repeat and pick in out:
                return None
        out.append(pick)
    return out


def gen_literal(rng, w, scope, must_mention=None, **kw):
    names = list(w.preds)
    rng.shuffle(names)
    for pn in names:
        a = args_for(rng, w, w.preds[pn], scope, **kw)
        if a is None:
            continue
        if must_mention and must_mention not in a:
            continue
        atom = [pn] + a
        return atom if rng.random() < 0.6 else ["not", atom]
    return None


GRID = [Fraction(k, 4) for k in range(-8, 9)]


def gen_fluent_term(rng, w, scope, must_mention=None, **kw):
    names = list(w.funcs)
    rng.shuffle(names)
    for fn in names:
        for _ in range(3 if must_mention else 1):
            a = args_for(rng, w, w.funcs[fn], scope, **kw)
            if a is not None and (not must_mention or must_mention in a):
                return [fn] + a
    return None


# constants: mostly halves; sometimes two-decimal ones whose products need more decimals than a 2-decimal printer keeps
HALVES = [Fraction(k, 2) for k in range(-4, 7)]
FINE = [Fraction(1, 4), Fraction(1, 20), Fraction(7, 4), Fraction(-3, 4), Fraction(3, 20)]


# effects are exported with four decimals: constants that need all four, a hair away from a whole number
FOUR = ["1.0001", "0.9999", "0.0001", "2.0001", "-0.0001", "12.3456", "-1.9999"]


def gen_num_expr(rng, w, scope, depth=1, ops=("+", "-", "*"), in_effect=False, **kw):
    r = rng.random()
    if depth <= 0 or r < 0.35:
        if rng.random() < 0.65:
            t = gen_fluent_term(rng, w, scope, **kw)
            if t is not None:
                return t
        if in_effect and rng.random() < 0.2:
            return rng.choice(FOUR)
        return frac_str(rng.choice(FINE if rng.random() < 0.2 else HALVES))
    op = rng.choice(ops)
    return [op, gen_num_expr(rng, w, scope, depth - 1, ops, in_effect=in_effect, **kw),
            gen_num_expr(rng, w, scope, depth - 1, ops, in_effect=in_effect, **kw)]


def gen_comparison(rng, w, scope, must_mention=None, **kw):
    lhs = gen_fluent_term(rng, w, scope, must_mention=must_mention, **kw)
    if lhs is None:
        return None
    if rng.random() < 0.3:
        lhs = ["+", lhs, gen_num_expr(rng, w, scope, 0, **kw)] if rng.random() < 0.5 else \
              ["-", gen_num_expr(rng, w, scope, 0, **kw), lhs]
    rhs = gen_num_expr(rng, w, scope, rng.choice([0, 0, 1, 1, 2]), **kw)
    return [rng.choice(["<", "<=", ">", ">=", "="]), lhs, rhs]


def gen_leaf(rng, w, scope, numeric=True, equality=True, must_mention=None, **kw):
    r = rng.random()
    if numeric and w.funcs and r < 0.25:
        c = gen_comparison(rng, w, scope, must_mention=must_mention, **kw)
        if c:
            return c
    if equality and r < 0.4 and len(scope) >= 2 and not must_mention:
        a, b = rng.sample([v for v, _ in scope], 2)
        if w.constants and rng.random() < 0.25:
            # a variable against a domain constant it can be bound to
            ta = dict(scope)[a]
            ks = [k for k, kt in w.constants.items() if w.subtype(kt, ta)]
            if ks:
                b = rng.choice(ks)
                if rng.random() < 0.5:
                    a, b = b, a
        e = ["=", a, b]
        return e if rng.random() < 0.5 else ["not", e]
    return gen_literal(rng, w, scope, must_mention=must_mention, **kw)


def gen_formula(rng, w, scope, depth=2, width=3, forall=True, top=True, nested_numeric=True, **kw):
    """an (and ...) body in the library's supported precondition fragment"""
    n = rng.randint(0 if top else 1, width)
    out = []
    if not nested_numeric and not top:
        kw = dict(kw, numeric=False)
    for _ in range(n):
        r = rng.random()
        if depth > 0 and r < 0.3:
            # a quantified condition may itself be a disjunct / conjunct of a nested condition
            sub = gen_formula(rng, w, scope, depth - 1, width, forall=forall and depth > 1 and rng.random() < 0.5, top=False,
                              nested_numeric=nested_numeric, **kw)
            sub[0] = rng.choice(["or", "or", "and"])
            if len(sub) > 1:
                out.append(sub)
        elif forall and depth > 0 and r < 0.45 and w.type_names():
            q = gen_forall(rng, w, scope, depth - 1, **(dict(kw, numeric=False) if not nested_numeric else kw))
            if q:
                out.append(q)
        else:
            lf = gen_leaf(rng, w, scope, **kw)
            if lf:
                out.append(lf)
    return ["and"] + out


def gen_forall(rng, w, scope, depth=1, numeric=True, equality=True, **kw):
    # the quantified type has at least one problem object; domain constants of the type are in its range as well
    tys = [t for t in w.type_names() if w.things_of(t, with_constants=False)]
    if not tys:
        return None
    ty = rng.choice(tys)
    v = "?o"
    sc2 = scope + [(v, ty)]
    body = []
    for _ in range(rng.randint(1, 3)):
        r = rng.random()
        if depth > 0 and r < 0.3:
            sub = [rng.choice(["and", "or"])]
            for _ in range(rng.randint(1, 2)):
                lf = gen_leaf(rng, w, sc2, numeric=numeric, equality=False, **kw)
                if lf:
                    sub.append(lf)
            if len(sub) > 1:
                body.append(sub)
        else:
            lf = gen_leaf(rng, w, sc2, numeric=numeric, equality=False, must_mention=v if rng.random() < 0.8 else None, **kw)
            if lf:
                body.append(lf)
    if equality and scope and rng.random() < 0.2:
        # the quantified variable compared with a parameter: "every other object", "only ?x itself" - sometimes as the whole body
        x = rng.choice([p for p, _ in scope])
        e = ["=", v, x] if rng.random() < 0.5 else ["=", x, v]
        e = e if rng.random() < 0.4 else ["not", e]
        body = [e] if rng.random() < 0.3 else body + [e]
    if not body:
        return None
    return ["forall", [v, "-", ty], [rng.choice(["and", "or"])] + body]


# ------------------------------------------------------------------------------------------
# effects
# ------------------------------------------------------------------------------------------
def gen_simple_effect(rng, w, scope, numeric=True, must_mention=None, **kw):
    if numeric and w.funcs and rng.random() < 0.35:
        tgt = None
        summing = must_mention and rng.random() < 0.3
        for _ in range(4):
            tgt = gen_fluent_term(rng, w, scope, use_constants=0.0)
            if tgt is None or not must_mention or (must_mention in tgt) != bool(summing):
                break
            tgt = None
        if tgt and summing:
            # the summing idiom: every instance of the quantified effect adds to one and the same fluent
            term = gen_fluent_term(rng, w, scope, must_mention=must_mention, use_constants=0.0) or "1"
            return [rng.choice(["increase", "decrease"]), tgt, term]
        if tgt:
            op = rng.choice(["assign", "increase", "decrease"])
            return [op, tgt, gen_num_expr(rng, w, scope, rng.choice([0, 1, 1]), in_effect=True, **kw)]
    lit = gen_literal(rng, w, scope, must_mention=must_mention, **kw)
    return lit


def gen_effect(rng, w, scope, when=True, forall=True, numeric=True, n=None, **kw):
    out = []
    n = rng.randint(1, 4) if n is None else n
    for _ in range(n):
        r = rng.random()
        if when and r < 0.25:
            cond = gen_when_condition(rng, w, scope, numeric=numeric, **kw)
            effs = [e for e in (gen_simple_effect(rng, w, scope, numeric=numeric, **kw) for _ in range(rng.randint(1, 2))) if e]
            if cond and effs:
                out.append(["when", cond, effs[0] if len(effs) == 1 and rng.random() < 0.5 else ["and"] + effs])
        elif forall and r < 0.4 and w.type_names():
            tys = [t for t in w.type_names() if w.things_of(t, with_constants=False)]
            if not tys:
                continue
            ty = rng.choice(tys)
            sc2 = scope + [("?o", ty)]
            cond = gen_when_condition(rng, w, sc2, numeric=numeric, must_mention="?o", **kw)
            effs = [e for e in (gen_simple_effect(rng, w, sc2, numeric=numeric, must_mention="?o", **kw) for _ in range(rng.randint(1, 2))) if e]
            if cond and effs:
                out.append(["forall", ["?o", "-", ty], ["when", cond, effs[0] if len(effs) == 1 and rng.random() < 0.5 else ["and"] + effs]])
        else:
            e = gen_simple_effect(rng, w, scope, numeric=numeric, **kw)
            if e:
                out.append(e)
    return ["and"] + out


def gen_when_condition(rng, w, scope, numeric=True, must_mention=None, **kw):
    n = rng.randint(1, 2)
    cs = []
    for i in range(n):
        lf = gen_leaf(rng, w, scope, numeric=numeric, equality=(must_mention is None),
                      must_mention=must_mention if i == 0 else None, **kw)
        if lf:
            cs.append(lf)
    if not cs:
        return None
    if must_mention is None and rng.random() < 0.08:
        # a universally quantified condition among the conjuncts of the antecedent
        q = gen_forall(rng, w, scope, depth=0, numeric=False)
        if q:
            return ["and"] + cs + [q]
    if len(cs) == 1 and rng.random() < 0.5:
        return cs[0]
    if len(cs) >= 2 and rng.random() < 0.3:
        return ["or"] + cs  # a disjunction at the top of the antecedent
    if len(cs) >= 2 and rng.random() < 0.2:
        return ["and", cs[0], ["or"] + cs[1:] + [cs[0]]]
    return ["and"] + cs


# ------------------------------------------------------------------------------------------
# states
# ------------------------------------------------------------------------------------------
def ground_atoms(w: W, with_constants=True) -> List[tuple]:
    out = []
    for pn, sig in w.preds.items():
        doms = [w.things_of(t, with_constants) for _, t in sig]
        for combo in product(*doms):
            out.append((pn,) + combo)
    return out


def ground_fluents(w: W, with_constants=True) -> List[tuple]:
    out = []
    for fn, sig in w.funcs.items():
        doms = [w.things_of(t, with_constants) for _, t in sig]
        for combo in product(*doms):
            out.append((fn,) + combo)
    return out


def random_state(rng, w: W, density=0.5, grid=GRID, atoms=None, fluents=None):
    atoms = ground_atoms(w) if atoms is None else atoms
    fluents = ground_fluents(w) if fluents is None else fluents
    a = frozenset(x for x in atoms if rng.random() < density)
    fl = {k: rng.choice(grid) for k in fluents}
    return a, fl


def relevant_atoms(wm: "model.World", f, b) -> List[tuple]:
    """ground atoms a formula instance can depend on"""
    out = []

    def go(f, b):
        if not isinstance(f, list) or not f:
            return
        h = f[0]
        if h in ("and", "or", "not", "imply", "when"):
            for x in f[1:]:
                go(x, b)
        elif h in ("forall", "exists"):
            vs = model.typed_list(f[1])
            for combo in product(*[wm.of_type(t) for _, t in vs]):
                b2 = dict(b)
                b2.update({v: o for (v, _), o in zip(vs, combo)})
                go(f[2], b2)
        elif h in wm.dom.predicates:
            a = tuple(model.subst(f, b))
            if a not in out:
                out.append(a)

    go(f, b)
    return out


def relevant_fluents(wm: "model.World", f, b) -> List[tuple]:
    out = []

    def go(f, b):
        if not isinstance(f, list) or not f:
            return
        h = f[0]
        if h in ("forall", "exists"):
            vs = model.typed_list(f[1])
            for combo in product(*[wm.of_type(t) for _, t in vs]):
                b2 = dict(b)
                b2.update({v: o for (v, _), o in zip(vs, combo)})
                go(f[2], b2)
            return
        if h in wm.dom.functions:
            a = tuple(model.subst(f, b))
            if a not in out:
                out.append(a)
            return
        for x in f[1:]:
            go(x, b)

    go(f, b)
    return out


def comparison_instances(wm: "model.World", f, b) -> List[tuple]:
    """every ground instance (op, lhs, rhs, binding) of a numeric comparison inside a condition or effect"""
    out = []

    def go(f, b):
        if not isinstance(f, list) or not f:
            return
        h = f[0]
        if h in ("forall", "exists"):
            vs = model.typed_list(f[1])
            for combo in product(*[wm.of_type(t) for _, t in vs]):
                b2 = dict(b)
                b2.update({v: o for (v, _), o in zip(vs, combo)})
                go(f[2], b2)
            return
        if h in model.CMP and len(f) == 3 and (isinstance(f[1], list) or isinstance(f[2], list)) \
                and (model.is_numeric_term(wm, f[1]) and model.is_numeric_term(wm, f[2])):
            out.append((h, f[1], f[2], b))
            return
        if h in ("and", "or", "not", "imply", "when"):
            for x in f[1:]:
                go(x, b)

    go(f, b)
    return out


BOUNDARY_DELTAS = [Fraction(1, 500), Fraction(-1, 500), Fraction(1, 250), Fraction(-1, 250), Fraction(1, 50), Fraction(-1, 50)]


def boundary_valuations(rng, wm: "model.World", formulas_with_bindings, base: dict, n: int) -> List[dict]:
    """valuations that put one comparison instance a hair (2e-3 .. 2e-2, well outside the library's 1e-4
    tolerance) on either side of its threshold: for a comparison that is affine in one of its fluents (the
    others fixed at `base`), that fluent is moved to the exact boundary point plus a small offset, rounded to
    4 decimals so that the problem text carries it exactly.  These are the states in which a threshold that
    moved by a rounding error (0.125 printed as 0.12) changes the answer; grid valuations never get there."""
    insts = []
    for f, b in formulas_with_bindings:
        insts += comparison_instances(wm, f, b)
    rng.shuffle(insts)
    out = []
    for op, lhs, rhs, b in insts:
        if len(out) >= n:
            break
        keys = relevant_fluents(wm, [op, lhs, rhs], b)
        if not keys:
            continue
        k = rng.choice(keys)
        if k not in base:
            continue

        def g(x):
            v = dict(base)
            v[k] = Fraction(x)
            st = (frozenset(), v)
            return model.num_eval(wm, lhs, st, b) - model.num_eval(wm, rhs, st, b)

        try:
            g0, g1, g2 = g(0), g(1), g(2)
        except (model.Outside, model.ModelError, ZeroDivisionError):
            continue
        slope = g1 - g0
        if slope == 0 or g2 - g1 != slope:
            continue
        x = -g0 / slope + rng.choice(BOUNDARY_DELTAS) / slope
        x = Fraction(round(x * 10000), 10000)
        if abs(x) > 10 ** 6 or abs(g(x)) < Fraction(1, 1000):
            continue
        v = dict(base)
        v[k] = x
        out.append(v)
    return out


def covering_states(rng, wm: "model.World", w: W, formulas_with_bindings, base_density=0.5,
                    max_exhaustive_bits=7, n_random=10, n_valuations=3, n_boundary=0, cross_cap=None):
    """states that exercise the given (formula, binding) instances:
    all 2^k assignments of the relevant atoms when k small, else random + single-atom flips;
    crossed with a few numeric valuations.  Irrelevant atoms are random but fixed per block."""
    rel, relf = [], []
    for f, b in formulas_with_bindings:
        for a in relevant_atoms(wm, f, b):
            if a not in rel:
                rel.append(a)
        for k in relevant_fluents(wm, f, b):
            if k not in relf:
                relf.append(k)
    all_atoms = ground_atoms(w)
    all_fl = ground_fluents(w)
    others = [a for a in all_atoms if a not in rel]
    base_other = frozenset(a for a in others if rng.random() < base_density)
    vals = []
    for _ in range(n_valuations if relf else 1):
        vals.append({k: rng.choice(GRID) for k in all_fl})
    if n_boundary and relf:
        vals += boundary_valuations(rng, wm, formulas_with_bindings, vals[0], n_boundary)
    states = []
    if len(rel) <= max_exhaustive_bits:
        n_masks = 1 << len(rel)
        for mask in range(n_masks):
            a = frozenset(rel[i] for i in range(len(rel)) if mask >> i & 1) | base_other
            for vi, v in enumerate(vals):
                # all atom assignments under the first valuation; under the other valuations a sample of them when there
                # are many (the boolean structure is covered once, the numeric thresholds by the valuations)
                if vi and cross_cap is not None and n_masks > cross_cap and rng.random() > cross_cap / n_masks:
                    continue
                states.append((a, dict(v)))
        exhaustive = True
    else:
        exhaustive = False
        for _ in range(n_random):
            a0 = set(x for x in rel if rng.random() < 0.5)
            v = rng.choice(vals)
            states.append((frozenset(a0) | base_other, dict(v)))
            for x in rng.sample(rel, min(len(rel), 4)):
                a1 = set(a0)
                a1.symmetric_difference_update({x})
                states.append((frozenset(a1) | base_other, dict(v)))
    return states, exhaustive


def features_of(tree) -> set:
    """syntactic feature tags of a formula / effect AST"""
    out = set()

    def go(t, inside=()):
        if not isinstance(t, list) or not t:
            return
        h = t[0]
        if isinstance(h, str):
            if h in ("and", "or", "not", "forall", "exists", "imply", "when", "assign", "increase", "decrease",
                     "scale-up", "scale-down", "<", "<=", ">", ">=", "=", "+", "-", "*", "/"):
                tag = h
                if h == "=":
                    tag = "num=" if any(isinstance(x, list) or model.is_num(x) for x in t[1:]) else "obj="
                if h == "not" and isinstance(t[1], list) and t[1] and t[1][0] == "=":
                    tag = "obj!="
                out.add(tag)
                if inside:
                    out.add(f"{tag}@{inside[-1]}")
                for x in t[1:]:
                    go(x, inside + (h,))
                return
            out.add("atom")
            if all(isinstance(x, str) for x in t[1:]) and len(set(t[1:])) < len(t[1:]):
                out.add("repeated-arg")
        for x in t:
            go(x, inside)

    go(tree)
    return out


def statically_consistent(eff) -> bool:
    """no function name is the target of two numeric effects unless all of them are increase / decrease (additive effects
    accumulate), and no predicate name is both added and deleted anywhere in the effect (a syntactic, conservative
    guarantee that no two simultaneously firing effects can be inconsistent, for workloads that must stay inside C03's
    quantifier)"""
    targets, added, deleted = {}, set(), set()

    def go(e):
        if not isinstance(e, list) or not e:
            return
        h = e[0]
        if h == "and":
            for x in e[1:]:
                go(x)
        elif h == "when":
            go(e[2])
        elif h == "forall":
            go(e[2])
        elif h in ("assign", "increase", "decrease", "scale-up", "scale-down"):
            targets.setdefault(e[1][0], []).append(h)
        elif h == "not":
            deleted.add(e[1][0])
        else:
            added.add(h)

    go(eff)
    return all(len(ops) == 1 or all(o in ("increase", "decrease") for o in ops) for ops in targets.values()) and not (added & deleted)


# ------------------------------------------------------------------------------------------
# plan worlds and steered random walks (C04, C10, C15, C16)
# ------------------------------------------------------------------------------------------
def gen_plan_world(rng, numeric=True, n_actions=None, forall=True, when=True, max_arity=2, numeric_actions=True) -> W:
    """a world whose actions have simple (mostly satisfiable) preconditions and statically consistent effects"""
    w = gen_world(rng, numeric=numeric, max_arity=max_arity, n_objs=rng.randint(3, 4))
    acts = []
    tries = 0
    n_actions = n_actions or rng.randint(3, 5)
    while len(acts) < n_actions and tries < 60:
        tries += 1
        params = gen_params(rng, w)
        pre = ["and"]
        for _ in range(rng.choice([0, 1, 1, 2])):
            lf = gen_leaf(rng, w, params, numeric=numeric and numeric_actions and rng.random() < 0.5, equality=True)
            if lf:
                pre.append(lf)
        if forall and rng.random() < 0.3:
            # a quantified precondition (ranges over the type and its subtypes) ...
            q = gen_forall(rng, w, params, depth=0, numeric=False)
            if q:
                pre.append(q)
        if rng.random() < 0.2:
            # ... or a disjunction of two leaves
            d = ["or"] + [x for x in (gen_leaf(rng, w, params, numeric=False, equality=True) for _ in range(2)) if x]
            if len(d) == 3:
                pre.append(d)
        eff = gen_effect(rng, w, params, when=when, forall=forall, numeric=numeric and numeric_actions, n=rng.randint(1, 3), use_constants=0.1)
        if len(eff) > 1 and statically_consistent(eff):
            acts.append({"name": f"act{len(acts)}", "params": params, "pre": pre, "eff": eff})
    w.actions = acts
    return w


def steered_walk(rng, wm, dom_m, st0, length, p_invalid=0.3, calls_cache=None):
    """a plan as a random walk steered by the reference model.
    returns list of (action, call, applicable?, pre_state, post_state) ; post = pre when not applicable.
    Steps whose model evaluation leaves the quantifier (undefined fluent, inconsistent effects) are never chosen."""
    steps = []
    st = st0
    all_calls = calls_cache if calls_cache is not None else {}
    if not all_calls:
        for an, act in dom_m.actions.items():
            all_calls[an] = model.type_correct_calls(wm, act)
    for _ in range(length):
        want_invalid = rng.random() < p_invalid
        cands = []
        names = list(dom_m.actions)
        rng.shuffle(names)
        for an in names:
            cs = all_calls[an][:]
            rng.shuffle(cs)
            for call in cs[:6]:
                act = dom_m.actions[an]
                try:
                    nxt = model.successor(wm, act, call, st)
                    margins = model.cmp_margins(wm, act.pre, st, model.binding(act, call)) + \
                        model.cmp_margins(wm, act.eff, st, model.binding(act, call))
                except (model.Outside, model.Inconsistent):
                    continue
                from fractions import Fraction as _F
                if any(0 < m < _F(1, 1000) for m in margins):
                    continue
                if nxt is not None and set(nxt[1]) != set(st[1]):
                    continue  # never define a new fluent on the way (keeps the repeated-argument finding's collisions out)
                if nxt is not None and any(abs(v) > 2 ** 20 or v.denominator > 2 ** 20 for v in nxt[1].values()):
                    continue  # stay where binary floating point is exact (no overflow, no lost low bits)
                cands.append((an, call, nxt))
        if not cands:
            break
        pick = [c for c in cands if (c[2] is None) == want_invalid] or cands
        an, call, nxt = rng.choice(pick)
        steps.append((an, list(call), nxt is not None, st, nxt if nxt is not None else st))
        st = nxt if nxt is not None else st
    return steps


def drop_colliding_fluents(st):
    """keep at most one fluent per (name, distinct objects in first-occurrence order): storage collisions of the
    recorded repeated-argument finding are kept out, so that its emulation does not depend on insertion order"""
    atoms, fl = st
    seen, out = set(), {}
    for k in sorted(fl):
        ck = (k[0],) + tuple(model.collapse_args(k[1:]))
        pk = (k[0], "printed") + tuple(model.repeats_first(k[1:]))
        if ck in seen or pk in seen:
            continue
        seen.add(ck)
        seen.add(pk)
        out[k] = fl[k]
    return atoms, out

"""Injected schedules: iteration order of the library's hash sets.

The library keeps operands, effects, effect groups and conditional effects in plain `set`s whose
iteration order depends on string hashes or object addresses - an implicit schedule of which every
test sees exactly one.  PermSet is a set subclass with the same members whose iteration order is a
pseudo-random permutation determined by (global SALT, canonical key of each element): stable while
the salt is unchanged, deterministic across processes, different for different salts.  Code that
is correct for every iteration order of a set cannot observe the difference."""
import hashlib

SALT = [0]
OBSERVED = {}  # kind -> set of observed orders (as tuples of keys), for the evidence


def set_salt(n):
    SALT[0] = n


def canon_key(e) -> str:
    for attr in ("untyped_representation",):
        try:
            v = getattr(e, attr)
            if isinstance(v, str):
                return type(e).__name__ + ":" + v
        except Exception:
            pass
    if hasattr(e, "to_pddl"):
        try:
            return "num:" + e.to_pddl()
        except Exception:
            pass
    if hasattr(e, "grounded_discrete_effects"):
        try:
            a = sorted(canon_key(x) for x in set.__iter__(e.grounded_discrete_effects))
            b = sorted(canon_key(x) for x in set.__iter__(e.grounded_numeric_effects))
            return "geff:" + "|".join(a + b) + ("?" if getattr(e, "grounded_antecedents", None) is not None else "")
        except Exception:
            pass
    if hasattr(e, "discrete_effects") and hasattr(e, "antecedents"):
        try:
            a = sorted(canon_key(x) for x in set.__iter__(e.discrete_effects))
            b = sorted(canon_key(x) for x in set.__iter__(e.numeric_effects))
            return "ceff:" + "|".join(a + b)
        except Exception:
            pass
    if hasattr(e, "conditional_effects") and hasattr(e, "quantified_parameter"):
        return "ueff:" + e.quantified_parameter + ":" + "|".join(sorted(canon_key(x) for x in set.__iter__(e.conditional_effects)))
    if isinstance(e, tuple):
        return "t:" + repr(e)
    if hasattr(e, "operands"):
        try:
            return "pre:" + getattr(e, "binary_operator", "") + "(" + "|".join(sorted(canon_key(x) for x in set.__iter__(e.operands))) + ")"
        except Exception:
            pass
    try:
        return "s:" + " ".join(sorted(str(e).split()))
    except Exception:
        return "?"


class PermSet(set):
    __slots__ = ("_kind",)

    def __iter__(self):
        items = list(set.__iter__(self))
        if len(items) < 2:
            return iter(items)
        salt = str(SALT[0]).encode()
        keyed = sorted(((hashlib.blake2b(salt + canon_key(e).encode(), digest_size=8).digest(), i, e)
                        for i, e in enumerate(items)), key=lambda t: (t[0], t[1]))
        order = [e for _, _, e in keyed]
        kind = getattr(self, "_kind", "set")
        OBSERVED.setdefault(kind, set()).add(tuple(canon_key(e) for e in order))
        return iter(order)

    def copy(self):
        return PermSet(set.__iter__(self))

    def __reduce__(self):
        return (PermSet, (list(set.__iter__(self)),))


def _is_lib(o) -> bool:
    return type(o).__module__.startswith("pddl_plus_parser")


def permute(obj, depth=8, _seen=None, _kind="root"):
    """replace every exact `set` reachable through the attributes of library objects by a PermSet"""
    if _seen is None:
        _seen = set()
    if id(obj) in _seen or depth < 0:
        return obj
    _seen.add(id(obj))
    if isinstance(obj, dict):
        for k, v in list(obj.items()):
            if type(v) is set:
                ps = PermSet(v)
                ps._kind = f"{_kind}[]"
                obj[k] = ps
                v = ps
            permute(v, depth - 1, _seen, _kind)
        return obj
    if isinstance(obj, (set, list, tuple)):
        for x in (set.__iter__(obj) if isinstance(obj, set) else obj):
            permute(x, depth - 1, _seen, _kind)
        return obj
    if not _is_lib(obj) or not hasattr(obj, "__dict__"):
        return obj
    for name, v in list(vars(obj).items()):
        if name in ("domain", "logger", "parent"):
            continue
        if type(v) is set:
            ps = PermSet(v)
            ps._kind = f"{type(obj).__name__}.{name}"
            try:
                setattr(obj, name, ps)
                v = ps
            except Exception:
                pass
        permute(v, depth - 1, _seen, f"{type(obj).__name__}.{name}")
    return obj


def observed_counts():
    return {k: len(v) for k, v in OBSERVED.items()}

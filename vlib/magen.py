"""Multi-agent worlds: agent type, every action has an executing-agent parameter; STRIPS and numeric.
Used by C10 (joint trajectories), C15 (plan conversion), C16 (joint actions), C17 (per-agent files)."""
from fractions import Fraction
from itertools import permutations
from pathlib import Path

from . import gen, model, sx, lib, env


def ma_world(rng, n_agents=None, numeric=None, extra_random=True) -> gen.W:
    w = gen.W()
    w.name = "madom"
    numeric = rng.random() < 0.5 if numeric is None else numeric
    w.types = [("ag", "object"), ("item", "object"), ("loc", "object")]
    if rng.random() < 0.4:
        w.types.append(("robot", "ag"))
    n_agents = n_agents or rng.randint(2, 4)
    agent_names = ["ag0", "ag-1", "r2", "ag_3"][:n_agents]
    for i, a in enumerate(agent_names):
        w.objects[a] = "robot" if ("robot", "ag") in w.types and i % 2 else "ag"
    for i in range(rng.randint(2, 3)):
        w.objects[f"it{i}"] = "item"
    for i in range(rng.randint(2, 3)):
        w.objects[f"l{i}"] = "loc"
    w.preds = {"at": [("?a", "ag"), ("?l", "loc")], "holding": [("?a", "ag"), ("?i", "item")], "free": [("?a", "ag")],
               "on": [("?i", "item"), ("?l", "loc")], "done": [("?i", "item")], "lit": [("?l", "loc")], "open": []}
    if numeric:
        w.funcs = {"energy": [("?a", "ag")], "load": [("?a", "ag")], "total": []}
    A = []

    def num(e):
        return [e] if numeric else []

    A.append({"name": "move", "params": [("?a", "ag"), ("?from", "loc"), ("?to", "loc")],
              "pre": ["and", ["at", "?a", "?from"], ["not", ["=", "?from", "?to"]]] + (num([">=", ["energy", "?a"], "1"])),
              "eff": ["and", ["not", ["at", "?a", "?from"]], ["at", "?a", "?to"]] + num(["decrease", ["energy", "?a"], "1"])})
    A.append({"name": "pick", "params": [("?a", "ag"), ("?i", "item"), ("?l", "loc")],
              "pre": ["and", ["at", "?a", "?l"], ["on", "?i", "?l"], ["free", "?a"]],
              "eff": ["and", ["holding", "?a", "?i"], ["not", ["on", "?i", "?l"]], ["not", ["free", "?a"]]] + num(["increase", ["load", "?a"], "1"])})
    A.append({"name": "drop", "params": [("?a", "ag"), ("?i", "item"), ("?l", "loc")],
              "pre": ["and", ["at", "?a", "?l"], ["holding", "?a", "?i"]],
              "eff": ["and", ["on", "?i", "?l"], ["free", "?a"], ["not", ["holding", "?a", "?i"]]] + num(["decrease", ["load", "?a"], "1"])})
    A.append({"name": "light", "params": [("?a", "ag"), ("?l", "loc")], "pre": ["and", ["at", "?a", "?l"]],
              "eff": ["and", ["lit", "?l"]]})
    A.append({"name": "finish", "params": [("?a", "ag"), ("?i", "item")], "pre": ["and", ["holding", "?a", "?i"], ["open"]],
              "eff": ["and", ["done", "?i"]]})
    # an enabler that may be redundant (adds a fact that can already hold), next to its consumers finish / toggle
    A.append({"name": "announce", "params": [("?a", "ag")], "pre": ["and"], "eff": ["and", ["open"]]})
    A.append({"name": "inspect", "params": [("?a", "ag"), ("?l", "loc")], "pre": ["and", ["at", "?a", "?l"], ["lit", "?l"]],
              "eff": ["and", ["not", ["lit", "?l"]]]})
    A.append({"name": "toggle", "params": [("?a", "ag")], "pre": ["and", ["free", "?a"]],
              "eff": ["and", ["when", ["open"], ["not", ["open"]]], ["when", ["not", ["open"]], ["open"]]]})
    if numeric:
        A.append({"name": "recharge", "params": [("?a", "ag")], "pre": ["and", ["<=", ["energy", "?a"], "3"]],
                  "eff": ["and", ["increase", ["energy", "?a"], "2"]]})
        A.append({"name": "tally", "params": [("?a", "ag")], "pre": ["and"], "eff": ["and", ["increase", ["total"], ["load", "?a"]]]})
        A.append({"name": "reset", "params": [("?a", "ag")], "pre": ["and", ["free", "?a"]], "eff": ["and", ["assign", ["total"], "0"]]})
        A.append({"name": "sync", "params": [("?a", "ag"), ("?b", "ag")], "pre": ["and", ["not", ["=", "?a", "?b"]]],
                  "eff": ["and", ["assign", ["energy", "?a"], ["energy", "?b"]]]})
    if rng.random() < 0.5:
        A.append({"name": "sweep", "params": [("?a", "ag"), ("?l", "loc")], "pre": ["and", ["at", "?a", "?l"]],
                  "eff": ["and", ["forall", ["?x", "-", "item"], ["when", ["and", ["on", "?x", "?l"]], ["done", "?x"]]]]})
        A.append({"name": "archive", "params": [("?a", "ag"), ("?i", "item")], "pre": ["and", ["done", "?i"], ["free", "?a"]],
                  "eff": ["and", ["not", ["done", "?i"]], ["open"]]})
    rng.shuffle(A)
    A.sort(key=lambda a: a["name"] not in ("tally", "reset", "move"))  # the shared-fluent writers are always kept
    keep = max(5, int(len(A) * rng.uniform(0.6, 1.0)))
    A = sorted(A[:keep], key=lambda a: a["name"])
    if not any(a["name"] == "move" for a in A):
        pass
    w.actions = A
    w.agents = agent_names
    return w


def ma_initial_state(rng, w):
    locs = [o for o, t in w.objects.items() if t == "loc"]
    items = [o for o, t in w.objects.items() if t == "item"]
    atoms = set()
    for a in w.agents:
        atoms.add(("at", a, rng.choice(locs)))
        if rng.random() < 0.8:
            atoms.add(("free", a))
    for it in items:
        atoms.add(("on", it, rng.choice(locs)))
    if rng.random() < 0.6:
        atoms.add(("open",))
    fl = {}
    if w.funcs:
        for a in w.agents:
            fl[("energy", a)] = Fraction(rng.randint(0, 6))
            fl[("load", a)] = Fraction(0)
        fl[("total",)] = Fraction(0)
    return frozenset(atoms), fl


def applicable_calls(wm, dom_m, st, agent=None):
    out = []
    for an, act in dom_m.actions.items():
        for call in model.type_correct_calls(wm, act):
            if agent is not None and (not call or call[0] != agent):
                continue
            try:
                nxt = model.successor(wm, act, call, st)
            except (model.Outside, model.Inconsistent):
                continue
            if nxt is not None:
                out.append((an, list(call), nxt))
    return out


def seq_apply(wm, dom_m, st, members):
    """sequential application in the given order; None if some member is inapplicable at its turn"""
    for an, call in members:
        try:
            st = model.successor(wm, dom_m.actions[an], call, st)
        except (model.Outside, model.Inconsistent):
            return None
        if st is None:
            return None
    return st


def commuting(wm, dom_m, st, members):
    """the members are all applicable in st and every order of sequential application is defined and
    gives one state; returns that state or None"""
    for an, call in members:
        try:
            if model.successor(wm, dom_m.actions[an], call, st) is None:
                return None
        except (model.Outside, model.Inconsistent):
            return None
    results = set()
    last = None
    for perm in permutations(members):
        r = seq_apply(wm, dom_m, st, perm)
        if r is None:
            return None
        results.add(model.canon_state(r))
        last = r
        if len(results) > 1:
            return None
    return last


def random_joint(rng, wm, dom_m, w, st, max_members=4):
    """a commuting joint action with one member per distinct agent, or None"""
    agents = w.agents[:]
    rng.shuffle(agents)
    members = []
    for a in agents[:max_members]:
        cs = applicable_calls(wm, dom_m, st, agent=a)
        rng.shuffle(cs)
        for an, call, _ in cs[:5]:
            cand = members + [(an, call)]
            if commuting(wm, dom_m, st, cand) is not None:
                members = cand
                break
    return members


def joint_line(w, members, rng=None, nop_positions=True):
    """render '[(a ...),(nop ),...]' with one slot per agent in w.agents order"""
    slots = []
    by_agent = {call[0]: (an, call) for an, call in members}
    for a in w.agents:
        if a in by_agent:
            an, call = by_agent[a]
            slots.append(f"({an} {' '.join(call)})")
        else:
            slots.append("(nop )")
    return "[" + ",".join(slots) + "]"


def joint_trajectory_cases(ctx, rng, thorough, compare_observation):
    """C10, joint-action part: MultiAgentTrajectoryExporter.export_to_file -> parse_trajectory(agents)"""
    from pddl_plus_parser.multi_agent import MultiAgentTrajectoryExporter
    for wi in range(10 if thorough else 2):
        w = ma_world(rng)
        dtext = w.domain_text()
        try:
            dom = lib.parse_domain_text(dtext)
        except BaseException:
            ctx.count("refused:domain")
            continue
        dom_m = model.RefDomain.from_text(dtext)
        wm = model.World(dom_m, w.objects)
        for pi in range(4 if thorough else 2):
            if not ctx.next_case():
                continue
            ctx.count("cases")
            st0 = ma_initial_state(rng, w)
            ptext = sx.plain(w.problem_ast(st0, rng=rng))
            try:
                prob = lib.parse_problem_text(ptext, dom)
            except BaseException:
                ctx.count("refused:problem")
                continue
            st = st0
            lines, exp_calls = [], []
            for _ in range(rng.choice([1, 3, 8])):
                if rng.random() < 0.15:
                    # a step in which no agent acts (every slot a nop), at any position including the first
                    members, nxt = [], st
                    ctx.count("joint_steps_with_only_nops")
                else:
                    members = random_joint(rng, wm, dom_m, w, st)
                    if not members:
                        break
                    nxt = commuting(wm, dom_m, st, members)
                lines.append(joint_line(w, members))
                by_agent = {call[0]: [an] + call for an, call in members}
                exp_calls.append([by_agent.get(a, ["nop"]) for a in w.agents])
                st = nxt
            if not lines:
                continue
            ex = MultiAgentTrajectoryExporter(dom)
            try:
                trip = ex.parse_plan(prob, action_sequence=lines)
                path = Path(env.write_tmp("", suffix=".trajectory"))
                ex.export_to_file(trip, path)
            except BaseException as e:
                ctx.count("refused:export")
                ctx.notes.setdefault("refused_joint_export", {"error": lib.exc_name(e), "lines": lines[:3]})
                continue
            text = open(path).read()
            exp_steps = [(t.previous_state, calls, t.next_state) for t, calls in zip(trip, exp_calls)]
            for mode in ("with-problem", "objects-deduced"):
                wit = {"domain": dtext, "problem": ptext, "joint_plan": lines, "trajectory": text[:3000], "mode": mode, "agents": w.agents}
                try:
                    obs = lib.TrajectoryParser(dom, prob if mode == "with-problem" else None).parse_trajectory(path, w.agents)
                except BaseException as e:
                    ctx.count("compared:state")
                    ctx.violation("roundtrip:parse_trajectory-raises[joint]", dict(wit, observed=lib.exc_name(e)))
                    continue
                ctx.feat({"joint:" + mode})
                if len(trip) >= 2:
                    ctx.nontrivial([text, mode])
                compare_observation(ctx, obs, exp_steps, wit, joint=True, agents=w.agents)

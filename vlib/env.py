"""Environment plumbing: locating the repository under test, the offline dependency
directory, scratch directories.  Nothing here imports the repository."""
import os
import shutil
import subprocess
import sys
import tempfile

HERE = os.path.dirname(os.path.dirname(os.path.abspath(__file__)))  # the /verif checkout
DEPS = os.path.join(HERE, ".deps")
WHEELS = "/opt/veriftools/wheels"


def repo_path() -> str:
    return os.environ.get("VERIF_REPO", "/repo")


def ensure_deps() -> None:
    """Nothing to install: the monitors are plain wrappers (DESIGN 10.1); everything runs on the repository's own
    interpreter and the standard library.  Kept as the single place where a dependency would be added."""
    return None


def use_repo() -> str:
    """Put the repository under test first on sys.path (wins over the editable install)."""
    rp = repo_path()
    if sys.path[0] != rp:
        sys.path.insert(0, rp)
    import logging
    logging.disable(logging.CRITICAL)  # the library logs warnings on every refusal
    return rp


_SCRATCH = None


def scratch() -> str:
    """A per-process scratch directory (removed at exit)."""
    global _SCRATCH
    if _SCRATCH is None:
        _SCRATCH = tempfile.mkdtemp(prefix=f"verif-{os.getpid()}-")
        import atexit
        atexit.register(lambda: shutil.rmtree(_SCRATCH, ignore_errors=True))
    return _SCRATCH


_counter = [0]
_recent = []
KEEP_RECENT = 400


def write_tmp(text: str, suffix: str = ".pddl", name: str = None, subdir: str = None) -> str:
    """Writes one input file for the library.  Automatically named files are transient: every caller hands the path to
    a parser straight away, so only the most recent KEEP_RECENT of them are kept (a thorough shard writes millions;
    left in place they exhaust the disk and make later shards fail with ENOSPC, which would be an inconclusive run)."""
    d = scratch()
    if subdir:
        d = os.path.join(d, subdir)
        os.makedirs(d, exist_ok=True)
    auto = name is None
    if auto:
        _counter[0] += 1
        name = f"f{_counter[0]}{suffix}"
    p = os.path.join(d, name)
    with open(p, "wt", encoding="utf-8", newline="") as f:
        f.write(text)
    if auto:
        _recent.append(p)
        if len(_recent) > KEEP_RECENT:
            old = _recent.pop(0)
            try:
                os.unlink(old)
            except OSError:
                pass
    return p


def sweep_stale_scratch(max_age_s: int = 6 * 3600) -> int:
    """removes scratch directories left behind by shards that were killed (watchdog, ^C) before their atexit ran;
    only directories older than max_age_s whose owner process is gone (the pid is part of the name)"""
    import time
    n = 0
    base = tempfile.gettempdir()
    for e in os.listdir(base):
        if not e.startswith("verif-"):
            continue
        p = os.path.join(base, e)
        try:
            pid = int(e.split("-")[1])
            alive = os.path.exists(f"/proc/{pid}")
            if alive:
                continue
            shutil.rmtree(p, ignore_errors=True)
            n += 1
        except (ValueError, IndexError):
            try:
                if time.time() - os.path.getmtime(p) > max_age_s:
                    shutil.rmtree(p, ignore_errors=True)
                    n += 1
            except OSError:
                pass
    return n

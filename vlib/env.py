"""Environment plumbing: locating the repository under test, the offline dependency
directory, scratch directories.  Nothing here imports the repository."""
import os
import shutil
import subprocess
import sys
import tempfile

HERE = os.path.dirname(os.path.dirname(os.path.abspath(__file__)))  # the /verif checkout
DEPS = os.path.join(HERE, ".deps")
WHEELS = "/opt/veriftools/wheels"


def repo_path() -> str:
    return os.environ.get("VERIF_REPO", "/repo")


def ensure_deps() -> None:
    """Nothing to install: the monitors are plain wrappers (DESIGN 10.1); everything runs on the repository's own
    interpreter and the standard library.  Kept as the single place where a dependency would be added."""
    return None


def use_repo() -> str:
    """Put the repository under test first on sys.path (wins over the editable install)."""
    rp = repo_path()
    if sys.path[0] != rp:
        sys.path.insert(0, rp)
    import logging
    logging.disable(logging.CRITICAL)  # the library logs warnings on every refusal
    return rp


_SCRATCH = None


def scratch() -> str:
    """A per-process scratch directory (removed at exit)."""
    global _SCRATCH
    if _SCRATCH is None:
        _SCRATCH = tempfile.mkdtemp(prefix="verif-")
        import atexit
        atexit.register(lambda: shutil.rmtree(_SCRATCH, ignore_errors=True))
    return _SCRATCH


_counter = [0]


def write_tmp(text: str, suffix: str = ".pddl", name: str = None, subdir: str = None) -> str:
    d = scratch()
    if subdir:
        d = os.path.join(d, subdir)
        os.makedirs(d, exist_ok=True)
    if name is None:
        _counter[0] += 1
        name = f"f{_counter[0]}{suffix}"
    p = os.path.join(d, name)
    with open(p, "wt", encoding="utf-8", newline="") as f:
        f.write(text)
    return p

"""pytest plugin: run the repository's own tests as a *workload* under the purity / reader monitors.
Loaded with -p vlib.pytest_plugin when PDDL_PLUS_PARSER_VERIF=1; test outcomes are ignored."""
import json
import os

_state = {}


class _Sink:
    def __init__(self):
        self.violations = []
        self.counts = {}
        self.test = None

    def violation(self, mech, wit):
        if len(self.violations) < 50:
            self.violations.append({"mechanism": mech, "witness": dict(wit, test=self.test)})

    def count(self, key, n=1):
        self.counts[key] = self.counts.get(key, 0) + n


def pytest_sessionstart(session):
    if os.environ.get("PDDL_PLUS_PARSER_VERIF") != "1":
        return
    from vlib import monitor
    sink = _Sink()
    _state["sink"] = sink
    _state["mon"] = monitor.Monitor(sink).attach()


def pytest_runtest_setup(item):
    if "sink" in _state:
        _state["sink"].test = item.nodeid
        _state["mon"].forget_all()


def pytest_sessionfinish(session, exitstatus):
    if "sink" not in _state:
        return
    _state["mon"].detach()
    out = os.environ.get("VERIF_PYTEST_OUT")
    if out:
        with open(out, "wt") as f:
            json.dump({"purity": _state["sink"].counts.get("contract:purity", 0), "counts": _state["sink"].counts,
                       "violations": _state["sink"].violations}, f, default=str)

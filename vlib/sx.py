"""Reference S-expression reader and renderer (independent of the repository).

read()       strict: exactly one balanced top-level parenthesised form, nothing after it.
read_first() the 'first complete form only' reading (used only to *classify* a known finding).
render()     tree -> text under a randomised layout (whitespace, CR/LF, tabs, comments, case).
"""
import random
from typing import List, Union

Tree = Union[str, List["Tree"]]


class ReadError(Exception):
    pass


def strip_comments(text: str) -> str:
    out = []
    for line in text.replace("\r\n", "\n").replace("\r", "\n").split("\n"):
        i = line.find(";")
        out.append(line if i < 0 else line[:i])
    return "\n".join(out)


def tokens(text: str) -> List[str]:
    t = strip_comments(text).lower()
    return t.replace("(", " ( ").replace(")", " ) ").split()


def _read(toks: List[str], i: int):
    if i >= len(toks):
        raise ReadError("unexpected end of input")
    t = toks[i]
    if t == "(":
        out = []
        i += 1
        while True:
            if i >= len(toks):
                raise ReadError("unbalanced: missing )")
            if toks[i] == ")":
                return out, i + 1
            sub, i = _read(toks, i)
            out.append(sub)
    if t == ")":
        raise ReadError("unexpected )")
    return t, i + 1


def read(text: str) -> Tree:
    toks = tokens(text)
    if not toks:
        raise ReadError("empty input")
    tree, i = _read(toks, 0)
    if i != len(toks):
        raise ReadError("trailing material after the top-level form")
    return tree


def read_first(text: str) -> Tree:
    toks = tokens(text)
    tree, _ = _read(toks, 0)
    return tree


def is_bare_atom_input(text: str) -> bool:
    toks = tokens(text)
    return bool(toks) and toks[0] not in "()"


def plain(tree: Tree) -> str:
    if isinstance(tree, str):
        return tree
    return "(" + " ".join(plain(t) for t in tree) + ")"


_COMMENTS = ["; c", ";; (note) with ( parens", "; ) stray ; and ; semicolons (", ";", "; (:action fake :parameters ())"]


def render(tree: Tree, rng: random.Random = None, hostile: float = 0.0, upper: float = 0.0,
           tabs: bool = True, crlf: bool = False) -> str:
    """Render with layout noise.  hostile = probability of a noisy separator at each gap."""
    if rng is None:
        return plain(tree)
    # crlf: True -> CR LF, "cr" -> a bare CR (the third line-end convention of universal newlines), False -> LF
    nl = "\r" if crlf == "cr" else ("\r\n" if crlf else "\n")

    def sep(force: bool = False) -> str:
        # a separator that is at least one whitespace character when force, else possibly empty
        r = rng.random()
        if r >= hostile:
            return " " if force else ""
        k = rng.randrange(7)
        if k == 6:
            # a comment glued to the preceding token: it starts at the ';' character, not at a blank
            return rng.choice(_COMMENTS) + nl
        if k == 0:
            return "  "
        if k == 1:
            return "\t" if tabs else " "
        if k == 2:
            return nl
        if k == 3:
            return " " + rng.choice(_COMMENTS) + nl
        if k == 4:
            return nl + rng.choice(_COMMENTS) + nl + ("\t" if tabs else "  ")
        return nl + "   "

    def tok(s: str) -> str:
        if upper and rng.random() < upper:
            return s.upper()
        return s

    def go(t: Tree) -> str:
        if isinstance(t, str):
            return tok(t)
        parts = ["(" + sep()]
        for i, c in enumerate(t):
            if i:
                # two atoms need a forced blank; around parens it is optional
                prev_atom = isinstance(t[i - 1], str)
                parts.append(sep(force=prev_atom and isinstance(c, str)))
            parts.append(go(c))
        parts.append(sep() + ")")
        return "".join(parts)

    head = sep() if hostile else ""
    # a leading comment line sometimes
    if hostile and rng.random() < hostile:
        head = rng.choice(_COMMENTS) + nl + head
    tail = sep() if hostile else ""
    if hostile and rng.random() < hostile / 2:
        tail += " " + rng.choice(_COMMENTS)  # comment on last line, no newline after it
    return head + go(tree) + tail

"""Oracle self-test: the reference model is validated before it is believed.

(i)   read(render(T)) == T for generated token trees under hostile layouts;
(ii)  shipped planner plans (Metric-FF / ENHSP output neither the library nor I wrote) are
      executable step by step in the model and reach the problem's goal;
(iii) formula evaluation agrees with a brute-force NNF/truth-table evaluation strategy;
(iv)  successor agrees with a set-algebraic STRIPS implementation on STRIPS-only actions.
Never imports the repository."""
import os
import random
import re
import sys

from . import env, sx, model, gen

T = "tests"
# (minecraft_pfile0.solution and models_tests/pfile04.solution are hand-made / mismatching plans,
#  not planner output: they are workloads for C04, not ground truth)
SHIPPED_PLANS = [
    # (domain, problem, plan) relative to <repo>/tests
    ("exporters_tests/elevators_domain.pddl", "exporters_tests/elevators_p03.pddl", "exporters_tests/elevators_p03_plan.solution"),
    ("exporters_tests/depot_numeric.pddl", "exporters_tests/pfile2.pddl", "exporters_tests/depot_numeric.solution"),
    ("exporters_tests/domain_spider.pddl", "exporters_tests/pfile01_spider.pddl", "exporters_tests/pfile01_spider.solution"),
    ("exporters_tests/domain_miconic.pddl", "exporters_tests/miconic_problem.pddl", "exporters_tests/miconic_solution.solution"),
    ("lisp_parsers_tests/farmland.pddl", "lisp_parsers_tests/pfile10_10.pddl", "lisp_parsers_tests/pfile10_10.solution"),
    ("multi_agent_tests/satellite_numeric_multi_agent/metricSat.pddl", "multi_agent_tests/satellite_numeric_multi_agent/pfile010.pddl", "multi_agent_tests/satellite_numeric_multi_agent/pfile010.solution"),
]

PLAN_LINE = re.compile(r"\(([^()]*)\)")


def read_plan(path):
    steps = []
    with open(path, "rt", errors="ignore") as f:
        for line in f:
            m = PLAN_LINE.search(line)
            if m:
                toks = m.group(1).lower().split()
                if toks:
                    steps.append(toks)
    return steps


def run_plan(dom_path, prob_path, plan_path, constants_in_range=True):
    with open(dom_path) as f:
        dom = model.RefDomain.from_text(f.read())
    with open(prob_path) as f:
        prob = model.RefProblem.from_text(f.read())
    w = model.World(dom, prob.objects, constants_in_range=constants_in_range)
    st = prob.state()
    steps = read_plan(plan_path)
    for i, s in enumerate(steps):
        act = dom.actions[s[0]]
        nxt = model.successor(w, act, s[1:], st)
        if nxt is None:
            return False, f"step {i} {s} not applicable in the model"
        st = nxt
    ok = model.holds(w, prob.goal, st, {})
    return ok, f"{len(steps)} steps, goal={'reached' if ok else 'NOT reached'}"


def rand_tree(rng, n):
    """random token tree with n nodes"""
    toks = ["a", "b-c", "?x", ":k", "1.5", "=", "-", "a_b"]
    if n <= 1:
        return rng.choice(toks) if rng.random() < 0.7 else []
    kids = []
    left = n - 1
    while left > 0:
        k = rng.randint(1, left)
        kids.append(rand_tree(rng, k))
        left -= k
    return kids


def truth_table_holds(w, f, st, b):
    """second evaluation strategy: push negations down to literals (NNF), expand quantifiers,
    then evaluate the resulting and/or tree over literal truth values"""
    def nnf(f, b, pos):
        if f is None or f == []:
            return ("const", pos)
        h = f[0]
        if h == "not":
            return nnf(f[1], b, not pos)
        if h in ("and", "or"):
            op = h if pos else ("or" if h == "and" else "and")
            return (op, [nnf(x, b, pos) for x in f[1:]])
        if h == "imply":
            return nnf(["or", ["not", f[1]], f[2]], b, pos)
        if h in ("forall", "exists"):
            vs = model.typed_list(f[1])
            from itertools import product
            subs = []
            for combo in product(*[w.of_type(t) for _, t in vs]):
                b2 = dict(b)
                b2.update({v: o for (v, _), o in zip(vs, combo)})
                subs.append(nnf(f[2], b2, pos))
            op = "and" if (h == "forall") == pos else "or"
            return (op, subs)
        return ("lit", model.holds(w, f, st, b) == pos)

    def ev(t):
        if t[0] in ("lit", "const"):
            return t[1]
        vals = [ev(x) for x in t[1]]
        return all(vals) if t[0] == "and" else any(vals)

    return ev(nnf(f, b, True))


def strips_successor(act_pre_pos, act_pre_neg, adds, dels, atoms):
    if not (act_pre_pos <= atoms) or (act_pre_neg & atoms):
        return None
    return (atoms - dels) | adds


_cache = {}


def quick(seed=12345, n_trees=150, n_formulas=150):
    """returns (ok, info dict).  ~1 s."""
    if "q" in _cache:
        return _cache["q"]
    info = {}
    ok = True
    rng = random.Random(seed)
    # (i)
    bad = 0
    for i in range(n_trees):
        t = rand_tree(rng, rng.randint(1, 25))
        if isinstance(t, str):
            t = [t]
        txt = sx.render(t, rng, hostile=rng.choice([0.0, 0.3, 0.8]), upper=rng.choice([0, 0.5]), crlf=rng.random() < 0.3)
        try:
            if sx.read(txt) != t:
                bad += 1
        except sx.ReadError:
            bad += 1
    info["reader_roundtrip"] = f"{n_trees - bad}/{n_trees}"
    ok &= bad == 0
    # (iii) + (iv)
    bad3 = bad4 = n4 = 0
    for i in range(n_formulas):
        w = gen.gen_world(rng)
        params = gen.gen_params(rng, w)
        f = gen.gen_formula(rng, w, params, depth=2)
        dom = model.RefDomain.from_ast(w.domain_ast())
        wm = model.World(dom, w.objects)
        calls = model.type_correct_calls(wm, model.RefAction("a", params, f, ["and"]))
        if not calls:
            continue
        call = rng.choice(calls)
        b = {p: a for (p, _), a in zip(params, call)}
        for _ in range(4):
            st = gen.random_state(rng, w)
            try:
                if model.holds(wm, f, st, b) != truth_table_holds(wm, f, st, b):
                    bad3 += 1
            except model.Outside:
                pass
        # STRIPS differential
        lits = [x for x in f[1:] if x[0] in w.preds or (x[0] == "not" and x[1][0] in w.preds)]
        eff = gen.gen_effect(rng, w, params, when=False, forall=False, numeric=False)
        pos = {tuple(model.subst(x, b)) for x in lits if x[0] != "not"}
        neg = {tuple(model.subst(x[1], b)) for x in lits if x[0] == "not"}
        adds = {tuple(model.subst(x, b)) for x in eff[1:] if x[0] != "not"}
        dels = {tuple(model.subst(x[1], b)) for x in eff[1:] if x[0] == "not"} - adds
        act = model.RefAction("a", params, ["and"] + lits, eff)
        st = gen.random_state(rng, w)
        try:
            m = model.successor(wm, act, call, st)
        except model.Inconsistent:
            continue
        s2 = strips_successor(pos, neg, adds, dels, set(st[0]))
        n4 += 1
        if (m is None) != (s2 is None) or (m is not None and set(m[0]) != s2):
            bad4 += 1
    info["formula_two_strategies_disagree"] = bad3
    info["strips_differential"] = f"{n4 - bad4}/{n4}"
    ok &= bad3 == 0 and bad4 == 0
    # (ii) two cheap shipped plans here; all of them in full()
    rp = env.repo_path()
    done = 0
    for d, p, s in SHIPPED_PLANS[:2]:
        paths = [os.path.join(rp, T, x) for x in (d, p, s)]
        if not all(os.path.exists(x) for x in paths):
            continue
        try:
            r, msg = run_plan(*paths)
        except Exception as e:  # fixture outside the model's fragment: not a failure of the model
            r, msg = None, f"outside model: {type(e).__name__}"
        info["plan:" + os.path.basename(s)] = msg
        if r is False:
            ok = False
        done += r is True
    info["shipped_plans_validated"] = done
    _cache["q"] = (ok, info)
    return ok, info


def full():
    ok, info = quick()
    rp = env.repo_path()
    for d, p, s in SHIPPED_PLANS[2:]:
        paths = [os.path.join(rp, T, x) for x in (d, p, s)]
        try:
            r, msg = run_plan(*paths)
        except Exception as e:
            r, msg = None, f"outside model: {type(e).__name__}: {e}"
        info["plan:" + os.path.basename(s)] = msg
        if r is False:
            ok = False
    return ok, info


def main():
    ok, info = full()
    for k, v in info.items():
        print(f"  {k}: {v}")
    print("oracle self-test:", "passed" if ok else "FAILED")
    return 0 if ok else 1

"""Canonical structural digests of the library's live objects (domain, schemas, problems, states).

A digest is a nested tuple built by a *read-only walk over public attributes*; it never calls
library code (no str(), no exporters), so computing it cannot itself mutate or depend on the
code under test.  If a refactor removes an attribute the walk degrades (records '?attr') instead
of raising.  `stored_value` scratch inside *lifted* schema trees is deliberately not part of the
value of a schema; in states it is the value."""


def _get(o, name, default="?"):
    try:
        return getattr(o, name)
    except Exception:
        return default


def d_type(t, depth=0):
    if t is None:
        return None
    chain = []
    seen = 0
    while t is not None and seen < 32:
        chain.append(_get(t, "name"))
        t = _get(t, "parent", None)
        seen += 1
    return tuple(chain)


def d_sig(sig):
    try:
        return tuple((k, d_type(v)) for k, v in sig.items())
    except Exception:
        return ("?sig", repr(type(sig)))


def d_pred(p):
    om = _get(p, "object_mapping", None)
    return ("pred", _get(p, "name"), d_sig(_get(p, "signature", {})), bool(_get(p, "is_positive", True)),
            tuple(om.items()) if isinstance(om, dict) else None)


def _num(x):
    """floats as themselves, non-finite ones as text (nan != nan would make an unchanged object look changed)"""
    try:
        x = float(x)
    except Exception:
        return repr(x)
    return x if x == x and abs(x) != float("inf") else repr(x)


def d_func(f, with_value):
    rv = _get(f, "repeating_variables", None)
    return ("func", _get(f, "name"), d_sig(_get(f, "signature", {})),
            tuple(sorted(rv.items())) if isinstance(rv, dict) else None,
            _num(_get(f, "stored_value", 0)) if with_value else None)


def d_tree(node, with_value=False):
    kids = _get(node, "children", ())
    v = _get(node, "value")
    if not kids:
        if hasattr(v, "signature"):
            return ("leaf", d_func(v, with_value))
        try:
            return ("const", float(v))
        except Exception:
            return ("const?", repr(v))
    return ("op", v) + tuple(d_tree(k, with_value) for k in kids)


def d_operand(o):
    if hasattr(o, "operands"):
        return d_pre(o)
    if hasattr(o, "root"):
        return ("num", d_tree(o.root))
    if hasattr(o, "signature"):
        return d_pred(o)
    return ("?operand", type(o).__name__)


def d_pre(p):
    if p is None:
        return None
    if hasattr(p, "root") and not hasattr(p, "operands"):
        return ("compound", d_pre(p.root))
    ops = sorted((repr(d_operand(o)) for o in set.__iter__(p.operands)) if isinstance(p.operands, set) else
                 (repr(d_operand(o)) for o in p.operands))
    q = None
    if hasattr(p, "quantified_parameter"):
        q = (p.quantified_parameter, d_type(_get(p, "quantified_type", None)))
    return ("pre", _get(p, "binary_operator"), q, tuple(ops),
            tuple(sorted(map(repr, _iter(_get(p, "equality_preconditions", ()))))),
            tuple(sorted(map(repr, _iter(_get(p, "inequality_preconditions", ()))))))


def _iter(s):
    if isinstance(s, set):
        return list(set.__iter__(s))
    try:
        return list(s)
    except Exception:
        return []


def d_ceff(c):
    return ("when", d_pre(_get(c, "antecedents", None)),
            tuple(sorted(repr(d_pred(x)) for x in _iter(_get(c, "discrete_effects", ())))),
            tuple(sorted(repr(("num", d_tree(x.root))) for x in _iter(_get(c, "numeric_effects", ())))))


def d_ueff(u):
    return ("forall", _get(u, "quantified_parameter"), d_type(_get(u, "quantified_type", None)),
            tuple(sorted(repr(d_ceff(c)) for c in _iter(_get(u, "conditional_effects", ())))))


def d_action(a):
    return ("action", _get(a, "name"), d_sig(_get(a, "signature", {})), d_pre(_get(a, "preconditions", None)),
            tuple(sorted(repr(d_pred(x)) for x in _iter(_get(a, "discrete_effects", ())))),
            tuple(sorted(repr(("num", d_tree(x.root))) for x in _iter(_get(a, "numeric_effects", ())))),
            tuple(sorted(repr(d_ceff(c)) for c in _iter(_get(a, "conditional_effects", ())))),
            tuple(sorted(repr(d_ueff(u)) for u in _iter(_get(a, "universal_effects", ())))))


def d_types(types):
    try:
        return tuple(sorted((k, d_type(v)) for k, v in types.items()))
    except Exception:
        return ("?types",)


def d_domain(d):
    return ("domain", _get(d, "name", None), tuple(_get(d, "requirements", ())),
            d_types(_get(d, "types", {})),
            tuple((k, _get(v, "name"), d_type(_get(v, "type", None))) for k, v in _get(d, "constants", {}).items()),
            tuple((k, d_pred(v)) for k, v in _get(d, "predicates", {}).items()),
            tuple((k, d_func(v, False)) for k, v in _get(d, "functions", {}).items()),
            tuple((k, d_action(v)) for k, v in _get(d, "actions", {}).items()))


def d_state(s):
    preds = []
    for k, group in _get(s, "state_predicates", {}).items():
        for p in _iter(group):
            preds.append(repr((k, d_pred(p))))
    fl = []
    for k, f in _get(s, "state_fluents", {}).items():
        fl.append(repr((k, d_func(f, True))))
    return ("state", bool(_get(s, "is_init", False)), tuple(sorted(preds)), tuple(sorted(fl)))


def d_state_value(s):
    """the *value* of a state (facts and fluent values), independent of is_init and of key layout"""
    atoms = set()
    for k, group in _get(s, "state_predicates", {}).items():
        for p in _iter(group):
            om = _get(p, "object_mapping", {})
            atoms.add((_get(p, "name"),) + tuple(om.values()))
    fl = {}
    for k, f in _get(s, "state_fluents", {}).items():
        fl[k] = (_get(f, "name"), tuple(_get(f, "signature", {}).keys()),
                 tuple(sorted((_get(f, "repeating_variables", {}) or {}).items())), _num(_get(f, "stored_value", 0)))
    return (tuple(sorted(atoms)), tuple(sorted(fl.items())))


def d_problem(p):
    init = []
    for k, group in _get(p, "initial_state_predicates", {}).items():
        for x in _iter(group):
            init.append(repr((k, d_pred(x))))
    return ("problem", _get(p, "name", None),
            tuple((k, _get(v, "name"), d_type(_get(v, "type", None))) for k, v in _get(p, "objects", {}).items()),
            tuple(sorted(init)),
            tuple(sorted(repr((k, d_func(f, True))) for k, f in _get(p, "initial_state_fluents", {}).items())),
            tuple(repr(d_pred(x)) for x in _get(p, "goal_state_predicates", [])),
            tuple(sorted(repr(d_tree(x.root)) for x in _iter(_get(p, "goal_state_fluents", ())))))


def digest(o):
    n = type(o).__name__
    if n == "Domain":
        return d_domain(o)
    if n == "Problem":
        return d_problem(o)
    if n == "State":
        return d_state(o)
    if n == "Action":
        return d_action(o)
    if isinstance(o, dict):
        # a bare types map / module global
        return d_types(o)
    if n == "PDDLType":
        return d_type(o)
    return ("?", n)


def first_difference(a, b, path="root"):
    """human-readable location of the first difference between two digests"""
    if type(a) != type(b):
        return f"{path}: {str(a)[:200]} -> {str(b)[:200]}"
    if isinstance(a, tuple):
        if len(a) != len(b):
            return f"{path}: length {len(a)} -> {len(b)}; {str(a)[:300]} -> {str(b)[:300]}"
        for i, (x, y) in enumerate(zip(a, b)):
            if x != y:
                return first_difference(x, y, f"{path}[{i}]")
        return None
    if a != b:
        return f"{path}: {str(a)[:300]} -> {str(b)[:300]}"
    return None

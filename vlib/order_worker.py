"""Worker for C07's fresh-process differential: executes a list of read-only API calls on the real library in a
given ORDER, in its own interpreter, and reports one canonical result per call id.

Two workers get the same calls in different orders.  A pure library answers every call identically in both; a
process-wide memo, a registry keyed by names, or a shared default object makes some answer depend on what was
called before - which a replay inside one process cannot see, because the polluted answer is stable from then on.

usage: python -m vlib.order_worker <job.json> <out.json>
job = {"domains": {key: text}, "problems": {key: [domain key, text]}, "calls": {id: [...]}, "order": [ids]}"""
import json
import sys


def norm_tree(t):
    """and/or are commutative: children sorted, so that address-dependent set orders do not look like differences"""
    if isinstance(t, list):
        kids = [norm_tree(x) for x in t]
        if kids and kids[0] in ("and", "or"):
            return [kids[0]] + sorted(kids[1:], key=repr)
        return kids
    return t


def canon_state12(model, st):
    """canonical state with fluent values at 12 significant digits (sums of several additive effects may differ in the
    last bits between two processes: they are added in the iteration order of an identity-hashed set)"""
    atoms, fl = st
    return (tuple(sorted(atoms)), tuple(sorted((k, "%.12g" % float(v)) for k, v in fl.items())))


def canon_text(sx, text):
    try:
        return repr(norm_tree(sx.read(text)))
    except Exception:
        return "raw:" + " ".join(str(text).split())


def main():
    job = json.load(open(sys.argv[1]))
    from vlib import lib, sx, model
    from pathlib import Path
    lib.assert_repo()
    from pddl_plus_parser.exporters import DomainExporter, ProblemExporter
    domains, problems = {}, {}
    converters, exporters, ndir = {}, {}, [0]

    def dom(k):
        if k not in domains:
            domains[k] = lib.parse_domain_text(job["domains"][k])
        return domains[k]

    def prob(k):
        if k not in problems:
            dk, text = job["problems"][k]
            problems[k] = lib.parse_problem_text(text, dom(dk))
        return problems[k]

    out = {}
    for cid in job["order"]:
        c = job["calls"][cid]
        kind = c[0]
        try:
            if kind == "print":
                _, dk, an, simplify = c
                res = canon_text(sx, dom(dk).actions[an].preconditions.print(should_simplify=simplify))
            elif kind == "str-action":
                _, dk, an = c
                res = canon_text(sx, str(dom(dk).actions[an]))
            elif kind == "export-domain":
                _, dk = c
                res = canon_text(sx, DomainExporter().extract_domain(dom(dk)))
            elif kind == "export-problem":
                _, pk = c
                res = canon_text(sx, ProblemExporter().extract_problem(prob(pk)))
            elif kind == "vocabulary":
                _, dk = c
                d = dom(dk)
                res = repr((sorted((n, t.parent.name if t.parent is not None else None) for n, t in d.types.items()),
                            sorted((n, x.type.name) for n, x in d.constants.items()),
                            sorted((n, [(k, v.name) for k, v in p.signature.items()]) for n, p in d.predicates.items()),
                            sorted((n, [(k, v.name) for k, v in f.signature.items()]) for n, f in d.functions.items()),
                            sorted((n, [(k, v.name) for k, v in a.signature.items()]) for n, a in d.actions.items())))
            elif kind == "subtypes":
                _, dk = c
                d = dom(dk)
                res = repr(sorted((a, b) for a, ta in d.types.items() for b, tb in d.types.items() if ta.is_sub_type(tb)))
            elif kind in ("applicable", "apply", "ground"):
                _, pk, an, call = c
                p = prob(pk)
                d = dom(job["problems"][pk][0])
                op = lib.make_operator(d, an, call, p.objects)
                if kind == "ground":
                    op.ground()
                    res = repr((sorted(canon_text(sx, str(x)) for _, x in op.grounded_preconditions),
                                sorted(repr((sorted(x.untyped_representation for x in g.grounded_discrete_effects),
                                             sorted(t.to_pddl() for t in g.grounded_numeric_effects),
                                             sorted(f"{kk}:{ff.state_representation}" for t in g.grounded_numeric_effects
                                                    for kk, ff in [(i, n.value) for i, n in enumerate(_leaves(t.root))])))
                                       for g in op.grounded_effects)))
                else:
                    s = lib.init_state(p)
                    app = op.is_applicable(s)
                    if kind == "applicable" or not app:
                        res = repr(bool(app))
                    else:
                        nxt = op.apply(s)
                        res = repr(canon_state12(model, lib.read_state(nxt)))
            elif kind == "convert-plan":
                _, pk, lines, agents, flag = c
                from pddl_plus_parser.multi_agent import PlanConverter
                from vlib import env
                pp = Path(env.write_tmp("\n".join(lines) + "\n", suffix=".txt"))
                converters.setdefault(job["problems"][pk][0], PlanConverter(dom(job["problems"][pk][0])))
                joint = converters[job["problems"][pk][0]].convert_plan(prob(pk), pp, list(agents), flag)
                res = repr([str(j) for j in joint])
            elif kind == "joint-trajectory":
                _, pk, lines = c
                from pddl_plus_parser.multi_agent import MultiAgentTrajectoryExporter
                ex = MultiAgentTrajectoryExporter(dom(job["problems"][pk][0]))
                trip = ex.parse_plan(prob(pk), action_sequence=list(lines))
                res = repr([(canon_state12(model, lib.read_state(t.previous_state)), [str(o) for o in t.joint_action], canon_state12(model, lib.read_state(t.next_state)))
                            for t in trip])
            elif kind == "single-trajectory":
                _, pk, lines, allow = c
                from pddl_plus_parser.exporters import TrajectoryExporter
                dk = job["problems"][pk][0]
                exporters.setdefault((dk, allow), TrajectoryExporter(dom(dk), allow_invalid_actions=allow))
                trip = exporters[(dk, allow)].parse_plan(prob(pk), action_sequence=list(lines))
                res = repr([(str(t.operator), canon_state12(model, lib.read_state(t.next_state))) for t in trip])
            elif kind == "combine-dir":
                _, files = c
                import os
                from vlib import env
                from pddl_plus_parser.multi_agent import MultiAgentDomainsConverter
                ndir[0] += 1
                d = os.path.join(env.scratch(), f"dir{ndir[0]}")
                os.makedirs(d)
                for fn, text in files.items():
                    with open(os.path.join(d, fn), "wt") as f:
                        f.write(text)
                comb = MultiAgentDomainsConverter(Path(d)).locate_domains()
                res = repr((sorted((n, t.parent.name if t.parent is not None else None) for n, t in comb.types.items()),
                            sorted((n, x.type.name) for n, x in comb.constants.items()),
                            sorted((n, [(k, v.name) for k, v in p.signature.items()]) for n, p in comb.predicates.items()),
                            sorted((n, [(k, v.name) for k, v in f.signature.items()]) for n, f in comb.functions.items()),
                            sorted((n, [(k, v.name) for k, v in a.signature.items()], canon_text(sx, a.preconditions.print(should_simplify=False)))
                                   for n, a in comb.actions.items())))
            elif kind == "planner-log":
                _, fname, text, layout = c
                from vlib import env
                from pddl_plus_parser.exporters import MetricFFParser, ENHSPParser
                pth = Path(env.write_tmp(text, name=fname))
                if layout == "ff":
                    res = repr(MetricFFParser().get_solving_status(pth))
                else:
                    res = repr(ENHSPParser.parse_plan_content(pth))
            elif kind == "problem-content":
                _, pk = c
                p = prob(pk)
                res = repr((sorted((n, o.type.name) for n, o in p.objects.items()),
                            canon_state12(model, lib.read_state(lib.init_state(p))),
                            sorted(x.untyped_representation for x in p.goal_state_predicates),
                            sorted(x.to_pddl() for x in p.goal_state_fluents)))
            else:
                res = "unknown-call"
        except BaseException as e:
            res = "raised:" + type(e).__name__
        out[cid] = res
    json.dump(out, open(sys.argv[2], "w"))


def _leaves(node):
    kids = list(getattr(node, "children", ()) or ())
    if not kids:
        return [node] if hasattr(node.value, "signature") else []
    out = []
    for k in kids:
        out += _leaves(k)
    return out


if __name__ == "__main__":
    main()

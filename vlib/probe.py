"""Behaviour probes: applicability and successor of one action of a parsed library Domain on covering
states, compared with the reference model's reading of a source text (used by C01, C08, C18)."""
from fractions import Fraction

from . import lib, model, gen, sx

SLACK = Fraction(1, 1000)


def state_diff(exp, got, exact=False):
    ea, ef = exp
    ga, gf = got
    d = {}
    if set(ga) - set(ea):
        d["extra_atoms"] = sorted(set(ga) - set(ea))
    if set(ea) - set(ga):
        d["missing_atoms"] = sorted(set(ea) - set(ga))
    wrong = {}
    for k in set(ef) | set(gf):
        if k not in gf:
            wrong[" ".join(k)] = ("expected", str(ef[k]), "observed", "absent")
        elif k not in ef:
            wrong[" ".join(k)] = ("expected", "absent", "observed", str(gf[k]))
        elif ef[k] != gf[k] and (exact or abs(float(ef[k]) - float(gf[k])) > 1e-9 * max(abs(float(ef[k])), abs(float(gf[k]))) + 1e-15):
            wrong[" ".join(k)] = ("expected", str(ef[k]), "observed", str(gf[k]))
    if wrong:
        d["fluents"] = wrong
    return d


def model_outcome(wm, dom_m, aname, call, st):
    """what the reference semantics says about one (action, call, state):
    ('app', bool, successor|None) | ('outside', why) | ('malformed', why)"""
    act = dom_m.actions[aname]
    b = model.binding(act, call)
    try:
        app = model.holds(wm, act.pre, st, b)
        if any(0 < x < SLACK for x in model.cmp_margins(wm, act.pre, st, b)):
            return ("outside", "boundary")
        if not app:
            return ("app", False, None)
        succ = model.successor(wm, act, call, st, check_pre=False)
        if any(0 < x < SLACK for x in model.cmp_margins(wm, act.eff, st, b)):
            return ("outside", "boundary")
        return ("app", True, succ)
    except (model.Outside, model.Inconsistent) as e:
        return ("outside", str(e))
    except model.ModelError as e:
        return ("malformed", str(e))
    except (KeyError, IndexError, TypeError, ValueError) as e:
        return ("malformed", f"{type(e).__name__}: {e}")


class Probe:
    """probes for one (library domain, model domain) pair over a generated universe"""

    def __init__(self, dom, dom_m, gw, dom_name=None):
        self.dom, self.dom_m, self.gw = dom, dom_m, gw
        self.wm = model.World(dom_m, gw.objects)
        self.sf = lib.StateFactory(dom, dom_name or gw.name, gw.objects)

    def cases(self, rng, aname, n_calls=3, bits=5, n_random=6, max_states=16):
        """yields (call, [states]) chosen by the model only"""
        act = self.dom_m.actions[aname]
        calls = model.type_correct_calls(self.wm, act)
        rng.shuffle(calls)
        calls.sort(key=lambda c: (len(set(c)) == len(c)))
        picked = calls[:1] + rng.sample(calls[1:], min(len(calls) - 1, n_calls - 1)) if len(calls) > 1 else calls
        # a call that passes a domain constant the action itself mentions (an (in)equality or a literal over that constant
        # separates such a call from all the others)
        mentioned = [k for k in self.dom_m.constants if k in sx.tokens(sx.plain(act.pre or [])) + sx.tokens(sx.plain(act.eff or []))]
        if mentioned:
            with_k = [c for c in calls if any(k in c for k in mentioned) and c not in picked]
            if with_k:
                picked = picked + [rng.choice(with_k)]
        for call in picked:
            b = model.binding(act, call)
            try:
                states, _ = gen.covering_states(rng, self.wm, self.gw, [(act.pre, b), (act.eff, b)],
                                                max_exhaustive_bits=bits, n_random=n_random, n_valuations=2, n_boundary=2)
            except model.ModelError:
                states = [gen.random_state(rng, self.gw) for _ in range(max_states)]
            if len(states) > max_states:
                states = rng.sample(states, max_states)
            yield call, states

    def expected(self, aname, call, st):
        """('app', bool, successor|None) | ('outside', why) | ('malformed', why)"""
        return model_outcome(self.wm, self.dom_m, aname, call, st)

    def observe(self, aname, call, st, dom=None, sf=None):
        """('app', bool, successor|None) | ('raised', where, what)"""
        dom = dom or self.dom
        sf = sf or self.sf
        try:
            s = sf.state(st, fresh=True)
        except BaseException as e:
            return ("raised", "state", lib.exc_name(e))
        try:
            op = lib.make_operator(dom, aname, call, sf.objects_table())
            app = op.is_applicable(s)
        except BaseException as e:
            return ("raised", "is_applicable", lib.exc_name(e))
        if not app:
            return ("app", app, None)
        try:
            nxt = op.apply(s)
            return ("app", app, lib.read_state(nxt))
        except BaseException as e:
            return ("raised", "apply", lib.exc_name(e))

    @staticmethod
    def compare(exp, obs):
        """None if faithful, else a discrepancy dict (exp must be an 'app' tuple, obs an 'app' tuple)"""
        if obs[1] is not exp[1]:
            return {"kind": "applicability", "expected": exp[1], "observed": obs[1]}
        if exp[1]:
            d = state_diff(exp[2], obs[2])
            if d:
                return {"kind": "successor", "diff": d}
        return None

"""Adapter to the library under test.  Everything goes through the public surface named in the
properties' observe_at: parsers, Operator, State.serialize(), exporters.  What the library
returns is read back with the reference reader (vlib.sx / vlib.model), never string-compared."""
import os
from pathlib import Path
from fractions import Fraction

from . import env, sx, model

env.use_repo()

from pddl_plus_parser.lisp_parsers import DomainParser, ProblemParser, PDDLTokenizer, TrajectoryParser  # noqa: E402
from pddl_plus_parser.models import Operator, State, Domain, Problem, ActionCall  # noqa: E402
import pddl_plus_parser  # noqa: E402

LIB_FILE = os.path.abspath(pddl_plus_parser.__file__)


def assert_repo():
    rp = os.path.abspath(env.repo_path())
    if not LIB_FILE.startswith(rp + os.sep):
        raise RuntimeError(f"library imported from {LIB_FILE}, expected under {rp}")


def parse_domain_text(text: str, name: str = None, subdir: str = None):
    p = env.write_tmp(text, name=name, subdir=subdir)
    return DomainParser(Path(p), partial_parsing=False).parse_domain()


def parse_problem_text(text: str, domain, name: str = None, subdir: str = None):
    p = env.write_tmp(text, name=name, subdir=subdir)
    return ProblemParser(Path(p), domain).parse_problem()


def init_state(problem) -> "State":
    return State(predicates=problem.initial_state_predicates, fluents=problem.initial_state_fluents, is_init=True)


def read_state(state):
    """independent reading of the library's own serialisation of a state"""
    return model.read_state_text(state.serialize())


def problem_text(dom_name: str, objects: dict, st, goal=None, name: str = "prob", rng=None) -> str:
    """render a problem whose :init is exactly the model state st"""
    atoms, fl = st
    objs = []
    for o, t in objects.items():
        objs += [o, "-", t]
    init = [list(a) for a in sorted(atoms)]
    init += [["=", list(k), frac_str(v)] for k, v in sorted(fl.items())]
    if rng is not None:
        rng.shuffle(init)
    tree = ["define", ["problem", name], [":domain", dom_name], [":objects"] + objs,
            [":init"] + init, [":goal", goal if goal is not None else ["and"]]]
    return sx.plain(tree)


def frac_str(v: Fraction) -> str:
    """a decimal numeral that float() reads back exactly when v is dyadic"""
    v = Fraction(v)
    if v.denominator == 1:
        return str(v.numerator)
    d = v.denominator
    # dyadic -> finite decimal
    k = 0
    dd = d
    while dd % 2 == 0:
        dd //= 2
        k += 1
    k5 = 0
    while dd % 5 == 0:
        dd //= 5
        k5 += 1
    if dd == 1 and max(k, k5) <= 12:
        digits = max(k, k5)
        s = f"{float(v):.{digits}f}"
        return s
    return repr(float(v))


class StateFactory:
    """builds library State objects from model states through the problem parser (the only public
    constructor path that validates), caching per canonical state"""

    def __init__(self, domain, dom_name: str, objects: dict):
        self.domain = domain
        self.dom_name = dom_name
        self.objects = objects
        self.cache = {}
        self.problem_objects = None

    def problem(self, st, rng=None):
        txt = problem_text(self.dom_name, self.objects, st, rng=rng)
        return parse_problem_text(txt, self.domain)

    def state(self, st, fresh: bool = False):
        key = model.canon_state(st)
        if fresh or key not in self.cache:
            pr = self.problem(st)
            if self.problem_objects is None:
                self.problem_objects = pr.objects
            s = init_state(pr)
            if fresh:
                return s
            self.cache[key] = s
        return self.cache[key]

    def objects_table(self):
        if self.problem_objects is None:
            pr = self.problem((frozenset(), {}))
            self.problem_objects = pr.objects
        return self.problem_objects


def make_operator(domain, action_name: str, call, problem_objects):
    return Operator(action=domain.actions[action_name], domain=domain,
                    grounded_action_call=list(call), problem_objects=problem_objects)


def exc_name(e: BaseException) -> str:
    return f"{type(e).__name__}: {str(e)[:160]}"
